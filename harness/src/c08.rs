//! C08 schema resolution against `refresolve`; C09 soundness of compatibility verdicts.
//! Pairs (W, R) come from the evolution generator (every step at every node, 1..k steps).

use crate::ast::{refparse, Env, S};
use crate::corpus;
use crate::ev::{self, guarded, Report, Stats, Tier};
use crate::evolve::{bases, Gen, Step};
use crate::refbin;
use crate::refresolve::{self, Ctx};
use crate::val::{self, from_lib, to_lib, veq, V};
use apache_avro::reader::datum::GenericDatumReader;
use apache_avro::schema_compatibility::{Compatibility, SchemaCompatibility};
use apache_avro::types::Value;
use apache_avro::Schema;
use rayon::prelude::*;
use serde_json::{json, Value as J};
use std::time::Instant;

pub struct Pair {
    pub idx: usize,
    pub base: String,
    pub steps: Vec<&'static str>,
    pub all_safe: bool,
    pub w: J,
    pub r: J,
}

fn c09_safe(name: &str) -> bool {
    name == "promote" || name.starts_with("add-field-default") || name == "remove-field" || name == "reorder-fields" || name.starts_with("add-union-branch") || name == "add-enum-symbol"
}

pub fn pairs(tier: Tier) -> Vec<Pair> {
    let mut out: Vec<Pair> = vec![];
    let mut g = Gen::new();
    let mut push = |base: &str, steps: Vec<&'static str>, safe: bool, w: &J, r: J, out: &mut Vec<Pair>| {
        // the generator's own flag matters too: a step that drops a field default is not always-safe
        let all_safe = safe && steps.iter().all(|s| c09_safe(s));
        let idx = out.len();
        out.push(Pair { idx, base: base.to_string(), steps, all_safe, w: w.clone(), r });
    };
    let mut ws: Vec<(String, J)> = bases().into_iter().map(|(n, j)| (n.to_string(), j)).collect();
    // plus a slice of the bounded-exhaustive schema universe
    let stride = if tier == Tier::Quick { 2 } else { 1 };
    for sc in corpus::build(2, false) {
        if sc.idx % stride == 0 && !sc.label.starts_with("wide") {
            ws.push((format!("su{}", sc.idx), sc.json.clone()));
        }
    }
    for (name, w) in &ws {
        push(name, vec![], true, w, w.clone(), &mut out); // identity
        let first: Vec<Step> = g.variants(w);
        for s1 in &first {
            push(name, vec![s1.name], s1.safe, w, s1.reader.clone(), &mut out);
        }
        // two steps: every second step after every first step on the hand-written bases; on the universe
        // slice after the always-safe first steps (quick) or after every first step (thorough)
        for s1 in &first {
            if tier == Tier::Quick && name.starts_with("su") && !c09_safe(s1.name) {
                continue;
            }
            for s2 in g.variants(&s1.reader) {
                push(name, vec![s1.name, s2.name], s1.safe && s2.safe, w, s2.reader, &mut out);
            }
        }
    }
    out
}

fn lib_read(w: &Schema, r: &Schema, bytes: &[u8]) -> Result<Value, String> {
    match guarded(|| {
        let rd = GenericDatumReader::builder(w).reader_schema(r).build()?;
        let mut cur: &[u8] = bytes;
        rd.read_value(&mut cur)
    }) {
        Ok(Ok(v)) => Ok(v),
        Ok(Err(e)) => Err(format!("error: {e}")),
        Err(p) => Err(format!("panic: {p}")),
    }
}

/// The datum reader given `{"Ref": name}` on both sides with W and R supplied as the two schemata (only when
/// both are named types of the same full name).
fn schemata_read(w: &Schema, r: &Schema, bytes: &[u8]) -> Option<Result<Value, String>> {
    let (wn, rn) = (w.name()?, r.name()?);
    if wn != rn {
        return None;
    }
    let (wref, rref) = (Schema::Ref { name: wn.clone() }, Schema::Ref { name: rn.clone() });
    Some(
        match guarded(|| -> Result<Value, String> {
            let rd = GenericDatumReader::builder(&wref)
                .writer_schemata(vec![w])
                .map_err(|e| format!("harness: writer schemata: {e}"))?
                .reader_schema(&rref)
                .reader_schemata(vec![r])
                .map_err(|e| format!("harness: reader schemata: {e}"))?
                .build()
                .map_err(|e| format!("error: {e}"))?;
            let mut cur: &[u8] = bytes;
            rd.read_value(&mut cur).map_err(|e| format!("error: {e}"))
        }) {
            Ok(x) => x,
            Err(p) => Err(format!("panic: {p}")),
        },
    )
}

/// A record that requires itself (a field whose type is a reference to an enclosing record, outside any
/// union, array or map): no finite value conforms to it.
fn bottomless(j: &J, enclosing: &mut Vec<String>) -> bool {
    match j {
        J::String(s) => enclosing.iter().any(|n| n == s || n.rsplit('.').next() == Some(s.as_str())),
        J::Object(o) if o.get("type").and_then(|t| t.as_str()) == Some("record") => {
            enclosing.push(o.get("name").and_then(|n| n.as_str()).unwrap_or("").to_string());
            let r = o.get("fields").and_then(|f| f.as_array()).is_some_and(|fs| fs.iter().any(|f| f.get("type").is_some_and(|t| bottomless(t, enclosing))));
            enclosing.pop();
            r
        }
        _ => false,
    }
}

/// One value written to a container file with the writer schema and read back with the reader schema.
fn container_read(w: &Schema, r: &Schema, v: &Value) -> Result<Value, String> {
    match guarded(|| -> Result<Value, String> {
        let mut wr = apache_avro::Writer::new(w, Vec::new()).map_err(|e| format!("harness: writer: {e}"))?;
        wr.append_value_ref(v).map_err(|e| format!("harness: append: {e}"))?;
        let bytes = wr.into_inner().map_err(|e| format!("harness: finish: {e}"))?;
        let mut rd = apache_avro::Reader::builder(&bytes[..]).reader_schema(r).build().map_err(|e| format!("error: {e}"))?;
        match rd.next() {
            Some(Ok(x)) => Ok(x),
            Some(Err(e)) => Err(format!("error: {e}")),
            None => Err("error: no value in the file".into()),
        }
    }) {
        Ok(x) => x,
        Err(p) => Err(format!("panic: {p}")),
    }
}

struct Parsed {
    ws: S,
    wenv: Env,
    rs: S,
    renv: Env,
    wl: Schema,
    rl: Schema,
}

fn parse_pair(p: &Pair, st: &mut Stats) -> Option<Parsed> {
    let (ws, wenv) = refparse(&p.w).ok()?;
    let (rs, renv) = match refparse(&p.r) {
        Ok(x) => x,
        Err(_) => {
            st.outcome("reader-not-wellformed(skipped)");
            return None;
        }
    };
    let wl = corpus::parse_lib(&p.w.to_string()).ok()?;
    let rl = match corpus::parse_lib(&p.r.to_string()) {
        Ok(x) => x,
        Err(_) => {
            st.outcome("reader-not-accepted(C11)");
            return None;
        }
    };
    Some(Parsed { ws, wenv, rs, renv, wl, rl })
}

/// Exact equality of library values, floats compared bit for bit.
fn value_eq(a: &Value, b: &Value) -> bool {
    match (a, b) {
        (Value::Float(x), Value::Float(y)) => x.to_bits() == y.to_bits() || (x.is_nan() && y.is_nan()),
        (Value::Double(x), Value::Double(y)) => x.to_bits() == y.to_bits() || (x.is_nan() && y.is_nan()),
        (Value::Union(i, x), Value::Union(j, y)) => i == j && value_eq(x, y),
        (Value::Array(x), Value::Array(y)) => x.len() == y.len() && x.iter().zip(y).all(|(p, q)| value_eq(p, q)),
        (Value::Map(x), Value::Map(y)) => x.len() == y.len() && x.iter().all(|(k, p)| y.get(k).is_some_and(|q| value_eq(p, q))),
        (Value::Record(x), Value::Record(y)) => x.len() == y.len() && x.iter().zip(y).all(|(p, q)| p.0 == q.0 && value_eq(&p.1, &q.1)),
        (x, y) => x == y,
    }
}

/// Re-judge a disagreement with the specification under the deviant model (value-based resolution
/// as implemented at the pinned commit): only an exact match of the library's result with the
/// model's result is a recorded finding; the finding ids name the lenient rules that fired.
fn rejudge(class: &str, v: &V, pp: &Parsed, got: &Result<Value, String>) -> Option<Vec<&'static str>> {
    if !matches!(class, "different-value" | "lib-ok-spec-none" | "lib-err-spec-value" | "not-idempotent") {
        return None;
    }
    if matches!(got, Err(e) if e.starts_with("panic")) {
        return None;
    }
    let mut notes = crate::libmodel::Notes::new();
    let (model, same);
    if class == "not-idempotent" {
        // the first resolution was right; the second starts from the resolved VALUE alone (that is how the
        // clause is stated) and the value-based rules may pick another branch for it
        let Ok(lv) = got else { return None };
        let again = guarded(|| lv.clone().resolve(&pp.rl));
        model = crate::libmodel::resolve(lv.clone(), &pp.rs, &pp.renv, &mut notes);
        same = match (&model, &again) {
            (Ok(m), Ok(Ok(l))) => value_eq(m, l),
            (Err(()), Ok(Err(_))) => true,
            _ => false,
        };
    } else {
        model = crate::libmodel::resolve(to_lib(v, &pp.ws, &pp.wenv), &pp.rs, &pp.renv, &mut notes);
        same = match (&model, got) {
            (Err(()), Err(_)) => true,
            (Ok(m), Ok(l)) => value_eq(m, l),
            _ => false,
        };
    }
    let _ = &model;
    notes.0.retain(|n| *n != crate::libmodel::NON_UTF8 && *n != crate::libmodel::NOT_A_UUID && *n != crate::libmodel::NOT_A_BIG_DECIMAL);
    if !same || notes.0.is_empty() {
        return None;
    }
    Some(
        notes
            .0
            .iter()
            .map(|n| match *n {
                "long-narrowed-to-int-when-it-fits" | "double-narrowed-to-float" => "D-C08-narrowing-accepted-when-the-value-fits",
                "named-type-names-not-compared" => "D-C08-names-of-records-enums-fixed-not-compared",
                "reader-field-aliases-not-used" => "D-C08-reader-field-aliases-not-used",
                "defaults-converted-from-json-by-value" => "D-C08-defaults-converted-by-json-value-not-by-field-type",
                "decimal-rejected-unless-its-bytes-are-as-wide-as-the-precision" => "D-C08-decimal-rejected-unless-bytes-as-wide-as-precision",
                "string-to-fixed-without-size-check" => "D-C08-string-to-fixed-without-size-check",
                "fixed-accepted-by-string-reader" => "D-C08-fixed-accepted-by-string-reader",
                "logical-type-value-not-accepted-by-reader-of-the-underlying-type" => "D-C08-logical-type-value-rejected-by-reader-of-the-underlying-type",
                "array-of-small-ints-accepted-by-bytes-reader" => "D-C08-array-of-small-ints-accepted-by-bytes-reader",
                "bytes-of-the-right-length-accepted-by-fixed-reader" => "D-C08-bytes-of-the-right-length-accepted-by-fixed-reader",
                "decimal-on-fixed-size-not-compared" => "D-C08-decimal-on-fixed-sizes-not-compared",
                "string-read-as-decimal-by-code-points" => "D-C08-written-string-read-as-decimal-by-code-points",
                "fixed-or-bytes-accepted-by-decimal-reader-whatever-its-underlying-type" => "D-C08-fixed-or-bytes-accepted-by-decimal-reader-of-the-other-underlying-type",
                _ => "D-C08-reader-union-branch-chosen-from-the-value",
            })
            .collect(),
    )
}

/// Root-cause classes of the recorded C08/C09 deviations, derived from the evolution steps.
fn c08_deviation(p: &Pair, class: &str) -> Option<&'static str> {
    let has = |s: &str| p.steps.iter().any(|x| *x == s);
    match class {
        "lib-ok-spec-none" => {
            if has("rename-type-without-alias") {
                return Some("D-C08-type-name-not-checked");
            }
            if has("narrow") {
                return Some("D-C08-narrowing-accepted-for-small-values");
            }
            if has("kind-change") || has("drop-logical") || has("add-logical") {
                return None;
            }
            None
        }
        "lib-err-spec-value" => {
            if has("rename-field-with-alias") {
                return Some("D-C08-reader-field-alias-ignored");
            }
            if has("drop-logical") {
                return Some("D-C08-logical-to-base-not-resolved");
            }
            None
        }
        _ => None,
    }
}

pub fn run_c08(tier: Tier, replay: Option<&J>) -> i32 {
    let start = Instant::now();
    refbin::self_test();
    let ps = pairs(tier);
    let only = replay.and_then(|r| r["pair_idx"].as_u64()).map(|x| x as usize);
    let only_v = replay.and_then(|r| r["value_idx"].as_u64()).map(|x| x as usize);
    let st = ps
        .par_iter()
        .filter(|p| only.is_none_or(|o| o == p.idx))
        .map(|p| {
            let mut st = Stats::default();
            let Some(pp) = parse_pair(p, &mut st) else { return st };
            let cx = Ctx { wenv: &pp.wenv, renv: &pp.renv };
            let vals = val::values(&pp.ws, &pp.wenv, 1, 0);
            for (vi, v) in vals.iter().enumerate() {
                if only_v.is_some_and(|x| x != vi) {
                    continue;
                }
                let order = (p.idx as u64) << 20 | vi as u64;
                st.states += 1;
                st.evaluations += 1;
                st.transitions += 2;
                let bytes = refbin::encode(v, &pp.ws, &pp.wenv);
                let expect = refresolve::resolve(&pp.ws, &pp.rs, v, &cx);
                if matches!(&expect, Err(refresolve::NoResult(m)) if m.contains("OUTSIDE-MODEL")) {
                    // the reference model has no opinion (not "no result"): no verdict for this case
                    st.outcome("outside-the-reference-model(no verdict)");
                    continue;
                }
                let got = lib_read(&pp.wl, &pp.rl, &bytes);
                // second path: Value::resolve on the generic value
                let got2 = match guarded(|| to_lib(v, &pp.ws, &pp.wenv).resolve(&pp.rl)) {
                    Ok(Ok(x)) => Ok(x),
                    Ok(Err(e)) => Err(format!("error: {e}")),
                    Err(pn) => Err(format!("panic: {pn}")),
                };
                let case = |what: &str| json!({"writer": p.w, "reader": p.r, "steps": p.steps, "value": v.short(), "observed": what, "library": ev::trunc(&format!("{got:?}"), 300), "value_resolve": ev::trunc(&format!("{got2:?}"), 300), "specification": ev::trunc(&format!("{expect:?}"), 300)});
                let replay = json!({"pair_idx": p.idx, "value_idx": vi});
                let mut problem: Option<(&'static str, String)> = None;
                if let Err(e) = &got {
                    if e.starts_with("panic") {
                        problem = Some(("panic", "reading with a reader schema panicked".into()));
                    }
                }
                if problem.is_none() {
                    match (&expect, &got) {
                        (Ok(alts), Ok(lv)) => {
                            let back = from_lib(lv, &pp.rs, &pp.renv);
                            match back {
                                Ok(b) if alts.iter().any(|a| veq(a, &b)) => {
                                    // validates against R and resolving again changes nothing
                                    let validates = guarded(|| lv.validate(&pp.rl)).unwrap_or(false);
                                    let again = guarded(|| lv.clone().resolve(&pp.rl));
                                    if !validates {
                                        problem = Some(("result-does-not-validate", "the resolved value does not validate against the reader schema".into()));
                                    } else if !matches!(&again, Ok(Ok(x)) if veq(&val::raw(x).canon(), &val::raw(lv).canon())) {
                                        problem = Some(("not-idempotent", format!("resolving the result again gives {:?}", ev::trunc(&format!("{again:?}"), 200))));
                                    } else if !matches!(&got2, Ok(x) if veq(&val::raw(x).canon(), &val::raw(lv).canon())) {
                                        problem = Some(("paths-differ", "Value::resolve and the datum reader disagree".into()));
                                    }
                                }
                                other => problem = Some(("different-value", format!("the library returned a value the rules do not prescribe (bridge: {})", ev::trunc(&format!("{other:?}"), 200)))),
                            }
                        }
                        (Err(_), Err(_)) => {}
                        (Ok(_), Err(_)) => problem = Some(("lib-err-spec-value", "the rules prescribe a value but the library returned an error".into())),
                        (Err(_), Ok(_)) => problem = Some(("lib-ok-spec-none", "the rules give no result but the library returned a value".into())),
                    }
                }
                // third path: the same value through a container file read with the reader schema must end
                // like the datum reader did (same value, or an error on both)
                // (a reader record that requires itself - the recursive base with its union unwrapped - has
                // no finite value; it is left to the datum path so that a decoder that recurses on it cannot
                // take the whole check down with a stack overflow)
                let bottomless_reader = bottomless(&p.r, &mut vec![]);
                if problem.is_none() && !bottomless_reader {
                    st.transitions += 1;
                    if std::env::var("VERIF_C08_TRACE").is_ok() {
                        eprintln!("TRACE pair {} value {} W {} R {}", p.idx, vi, p.w, p.r);
                    }
                    let got3 = container_read(&pp.wl, &pp.rl, &to_lib(v, &pp.ws, &pp.wenv));
                    let agree = match (&got, &got3) {
                        (Ok(a), Ok(b)) => value_eq(a, b),
                        (Err(_), Err(e)) => !e.starts_with("panic") && !e.starts_with("harness"),
                        _ => false,
                    };
                    if !agree {
                        problem = Some(("paths-differ", format!("the container Reader with a reader schema ends differently from the datum reader: {}", ev::trunc(&format!("{got3:?}"), 200))));
                    }
                    // fourth path: the deprecated wrapper from_avro_datum(writer, bytes, Some(reader))
                    if problem.is_none() {
                        st.transitions += 1;
                        #[allow(deprecated)]
                        let got4 = guarded(|| apache_avro::from_avro_datum(&pp.wl, &mut &bytes[..], Some(&pp.rl)));
                        let agree4 = match (&got, &got4) {
                            (Ok(a), Ok(Ok(b))) => value_eq(a, b),
                            (Err(_), Ok(Err(_))) => true,
                            _ => false,
                        };
                        if !agree4 {
                            problem = Some(("paths-differ", format!("from_avro_datum with a reader schema ends differently from the datum reader: {}", ev::trunc(&format!("{got4:?}"), 200))));
                        }
                    }
                    // fifth path: writer and reader both name the type by reference only and each side
                    // supplies its own version of it through writer_schemata / reader_schemata (the two root
                    // schemas compare equal although the type behind the name evolved)
                    if problem.is_none() {
                        if let Some(got5) = schemata_read(&pp.wl, &pp.rl, &bytes) {
                            st.transitions += 1;
                            let agree5 = match (&got, &got5) {
                                (Ok(a), Ok(b)) => value_eq(a, b),
                                (Err(_), Err(e)) => !e.starts_with("panic") && !e.starts_with("harness"),
                                _ => false,
                            };
                            if !agree5 {
                                problem = Some(("paths-differ", format!("a datum reader given the type by reference through writer_schemata / reader_schemata ends differently from the datum reader given the schemas directly: {}", ev::trunc(&format!("{got5:?}"), 200))));
                            }
                        }
                    }
                }
                match problem {
                    None => {
                        st.outcome(if expect.is_ok() { "resolved-as-specified" } else { "error-as-specified" });
                        st.class(format!("{:?}|{}|{}", p.steps, pp.ws.kind(), expect.is_ok()));
                        if p.steps.len() == 1 && expect.is_ok() {
                            st.sample(|| json!({"writer": p.w, "reader": p.r, "steps": p.steps, "value": v.short(), "result": ev::trunc(&format!("{got:?}"), 200)}));
                        }
                    }
                    Some((class, msg)) => match rejudge(class, v, &pp, &got) {
                        Some(devs) => {
                            st.outcome("known-deviation");
                            for dev in devs {
                                st.deviation(dev, || case(&msg));
                            }
                        }
                        None => {
                            st.outcome(&format!("violation:{class}:{:?}", p.steps));
                            st.violate(order, &format!("{class} after {:?}", p.steps), case(&msg), replay);
                        }
                    },
                }
            }
            st
        })
        .reduce(Stats::default, Stats::merge);
    let rep = Report {
        id: "C08".into(),
        tier,
        level: "model_checking",
        rule: "pairs (W,R) = base schemas (hand-written rich bases + a slice of SU(2)) x every evolution step at every node (1 step everywhere, 2 steps on the bases); for every value of W (alphabet level 1) the datum reader with reader schema and Value::resolve are compared with refresolve, and three more paths must end like the datum reader (a container file read with the reader schema, the deprecated from_avro_datum, and a datum reader that is given the type only by reference with W and R supplied as writer_schemata / reader_schemata) (spec rules; union-branch choice accepts spec-first-match or reference-implementation exact-first); a class is (step sequence, writer kind, result/no-result)".into(),
        bounds: json!({"pairs": ps.len(), "max_steps": 2}),
        assumptions: vec!["refresolve implements the specification's resolution rules literally over the underlying types; logical types map to the reader's representation".into()],
        exhaustive: replay.is_none(),
        extra: json!({}),
    };
    ev::finish(rep, st, start)
}

// ---------------------------------------------------------------------------------------------

/// A Full verdict whose read fails is a recorded finding only when the harness's model of the library's
/// value-based resolution (libmodel) also fails on this very value and names the rules that fired.
fn c09_judge(v: &V, ws: &S, wenv: &Env, rs: &S, renv: &Env) -> Option<Vec<&'static str>> {
    let mut notes = crate::libmodel::Notes::new();
    let model = crate::libmodel::resolve(to_lib(v, ws, wenv), rs, renv, &mut notes);
    // only the rule at which the model gave up counts here
    if model.is_ok() || notes.1.is_empty() {
        return None;
    }
    // the selection of a reader union branch is the cause only when the rules themselves do give a result
    // for this value; otherwise something inside the branch failed (an enum symbol, say) and that is no
    // recorded finding
    let union_note = "reader-union-branch-chosen-from-the-value-not-the-writer-schema";
    if notes.1.contains(&union_note) {
        let cx = Ctx { wenv, renv };
        if refresolve::resolve(ws, rs, v, &cx).is_err() {
            notes.1.retain(|n| *n != union_note);
            if notes.1.is_empty() {
                return None;
            }
        }
    }
    Some(
        notes
            .1
            .iter()
            .map(|n| match *n {
                crate::libmodel::NON_UTF8 => "D-C09-bytes-to-string-is-full-but-bytes-that-are-not-utf8-cannot-be-read",
                crate::libmodel::NOT_A_UUID => "D-C09-plain-string-or-bytes-to-uuid-is-full-but-only-uuid-shaped-values-can-be-read",
                crate::libmodel::NOT_A_BIG_DECIMAL => "D-C09-plain-bytes-to-big-decimal-is-full-but-only-big-decimal-payloads-can-be-read",
                "reader-field-aliases-not-used" => "D-C09-full-verdict-relies-on-reader-field-aliases-that-reading-ignores",
                "logical-type-value-not-accepted-by-reader-of-the-underlying-type" => "D-C09-full-across-logical-types-but-the-read-rejects-the-value",
                "defaults-converted-from-json-by-value" => "D-C09-full-but-the-reader-default-cannot-be-converted",
                _ => "D-C09-full-but-reader-union-branch-chosen-from-the-value-fails",
            })
            .collect(),
    )
}

#[allow(dead_code)]
fn c09_deviation(p: &Pair) -> Option<&'static str> {
    let has = |s: &str| p.steps.iter().any(|x| *x == s);
    if has("rename-field-with-alias") {
        return Some("D-C09-full-but-reader-field-alias-not-resolved");
    }
    if has("drop-logical") || has("add-logical") {
        return Some("D-C09-full-across-logical-types-but-read-fails");
    }
    None
}

pub fn run_c09(tier: Tier, replay: Option<&J>) -> i32 {
    let start = Instant::now();
    let ps = pairs(tier);
    let only = replay.and_then(|r| r["pair_idx"].as_u64()).map(|x| x as usize);
    // ordered pairs of a bounded-exhaustive slice
    let slice: Vec<crate::corpus::Sc> = corpus::build(2, false).into_iter().filter(|s| !s.label.starts_with("wide")).collect();
    let nslice = if tier == Tier::Quick { 300 } else { 700 };
    let step = (slice.len() / nslice).max(1);
    let picked: Vec<&crate::corpus::Sc> = slice.iter().step_by(step).collect();
    let mut st = ps
        .par_iter()
        .filter(|p| only.is_none_or(|o| o == p.idx))
        .map(|p| {
            let mut st = Stats::default();
            let Some(pp) = parse_pair(p, &mut st) else { return st };
            let order = (p.idx as u64) << 20;
            st.states += 1;
            let verdict = guarded(|| SchemaCompatibility::can_read(&pp.wl, &pp.rl));
            st.transitions += 1;
            let replay = json!({"pair_idx": p.idx});
            let verdict = match verdict {
                Ok(v) => v,
                Err(pn) => {
                    st.violate(order, "can_read panicked", json!({"writer": p.w, "reader": p.r, "panic": pn}), replay);
                    return st;
                }
            };
            // reflexivity
            if p.steps.is_empty() && verdict != Ok(Compatibility::Full) {
                st.outcome("violation:not-reflexive");
                st.violate(order, "a schema is not fully compatible with itself", json!({"schema": p.w, "verdict": format!("{verdict:?}")}), replay.clone());
            }
            // safe steps never incompatible
            if p.all_safe && !p.steps.is_empty() && verdict.is_err() {
                st.outcome(&format!("violation:safe-step-rejected:{:?}", p.steps));
                st.violate(order | 1, &format!("always-safe evolution {:?} reported incompatible", p.steps), json!({"writer": p.w, "reader": p.r, "steps": p.steps, "verdict": ev::trunc(&format!("{verdict:?}"), 300)}), replay.clone());
            }
            // symmetry of mutual_read
            let ab = guarded(|| SchemaCompatibility::mutual_read(&pp.wl, &pp.rl).ok());
            let ba = guarded(|| SchemaCompatibility::mutual_read(&pp.rl, &pp.wl).ok());
            st.transitions += 2;
            if ab != ba {
                st.outcome("violation:mutual-asymmetric");
                st.violate(order | 2, "mutual_read(a,b) differs from mutual_read(b,a)", json!({"a": p.w, "b": p.r, "ab": format!("{ab:?}"), "ba": format!("{ba:?}")}), replay.clone());
            }
            // soundness: Full => every value reads
            if verdict == Ok(Compatibility::Full) {
                let vals = val::values(&pp.ws, &pp.wenv, if tier == Tier::Quick { 1 } else { 0 }, 0);
                for (vi, v) in vals.iter().enumerate() {
                    st.evaluations += 1;
                    st.transitions += 1;
                    let bytes = refbin::encode(v, &pp.ws, &pp.wenv);
                    match lib_read(&pp.wl, &pp.rl, &bytes) {
                        Ok(_) => {
                            st.outcome("full-and-read-ok");
                            st.class(format!("{:?}|{}", p.steps, pp.ws.kind()));
                            if vi == 0 && p.steps.len() == 1 {
                                st.sample(|| json!({"writer": p.w, "reader": p.r, "steps": p.steps, "verdict": "Full", "value": v.short()}));
                            }
                        }
                        Err(e) => {
                            let case = || json!({"writer": p.w, "reader": p.r, "steps": p.steps, "verdict": "Full", "value": v.short(), "read": e});
                            match c09_judge(v, &pp.ws, &pp.wenv, &pp.rs, &pp.renv) {
                                Some(devs) => {
                                    st.outcome("known-deviation");
                                    for dev in devs {
                                        st.deviation(dev, case);
                                    }
                                }
                                None => {
                                    st.outcome(&format!("violation:full-but-read-fails:{:?}", p.steps));
                                    st.violate(order | 4 | (vi as u64) << 3, &format!("can_read says Full but a value cannot be read after {:?}", p.steps), case(), json!({"pair_idx": p.idx, "value_idx": vi}));
                                }
                            }
                            break;
                        }
                    }
                }
            } else {
                st.evaluations += 1;
                st.outcome(if verdict.is_ok() { "partial" } else { "incompatible" });
            }
            st
        })
        .reduce(Stats::default, Stats::merge);
    // all ordered pairs of the slice: soundness + symmetry
    if only.is_none() {
        let parsed: Vec<(usize, &crate::corpus::Sc, Schema)> = picked.iter().filter_map(|sc| corpus::parse_lib(&sc.text).ok().map(|s| (sc.idx, *sc, s))).collect();
        let st2 = parsed
            .par_iter()
            .map(|(wi, wsc, wl)| {
                let mut st = Stats::default();
                let vals = val::values(&wsc.s, &wsc.env, 2, 0);
                for (ri, rsc, rl) in &parsed {
                    st.states += 1;
                    st.transitions += 1;
                    let order = 1u64 << 50 | (*wi as u64) << 20 | *ri as u64;
                    let verdict = guarded(|| SchemaCompatibility::can_read(wl, rl));
                    let Ok(verdict) = verdict else {
                        st.violate(order, "can_read panicked", json!({"writer": wsc.json, "reader": rsc.json}), json!({}));
                        continue;
                    };
                    if wi == ri && verdict != Ok(Compatibility::Full) {
                        st.violate(order, "a schema is not fully compatible with itself", json!({"schema": wsc.json, "verdict": format!("{verdict:?}")}), json!({}));
                    }
                    let ab = guarded(|| SchemaCompatibility::mutual_read(wl, rl).ok());
                    let ba = guarded(|| SchemaCompatibility::mutual_read(rl, wl).ok());
                    if ab != ba {
                        st.outcome("violation:mutual-asymmetric");
                        st.violate(order | 2, "mutual_read(a,b) differs from mutual_read(b,a)", json!({"a": wsc.json, "b": rsc.json, "ab": format!("{ab:?}"), "ba": format!("{ba:?}")}), json!({}));
                    }
                    if verdict == Ok(Compatibility::Full) {
                        for v in &vals {
                            st.evaluations += 1;
                            let bytes = refbin::encode(v, &wsc.s, &wsc.env);
                            if let Err(e) = lib_read(wl, rl, &bytes) {
                                let case = || json!({"writer": wsc.json, "reader": rsc.json, "verdict": "Full", "value": v.short(), "read": e});
                                if let Some(devs) = c09_judge(v, &wsc.s, &wsc.env, &rsc.s, &rsc.env) {
                                    st.outcome("known-deviation");
                                    for dev in devs {
                                        st.deviation(dev, case);
                                    }
                                } else {
                                    st.outcome("violation:full-but-read-fails:slice");
                                    st.violate(order | 4, "can_read says Full but a value cannot be read (exhaustive slice)", case(), json!({}));
                                }
                                break;
                            } else {
                                st.outcome("full-and-read-ok");
                            }
                        }
                    } else {
                        st.evaluations += 1;
                        st.outcome(if verdict.is_ok() { "partial" } else { "incompatible" });
                    }
                }
                st
            })
            .reduce(Stats::default, Stats::merge);
        st = st.merge(st2);
    }
    let rep = Report {
        id: "C09".into(),
        tier,
        level: "model_checking",
        rule: "for every (W,R) of the evolution generator and every ordered pair of a bounded-exhaustive slice of SU(2): can_read(W,R)==Full => every value of W reads with R; pairs differing only by always-safe steps are never Err; reflexive pairs are Full; mutual_read is symmetric. A class is (step sequence, writer kind) with a Full verdict confirmed by reads".into(),
        bounds: json!({"evolution_pairs": ps.len(), "slice_schemas": picked.len(), "slice_pairs": picked.len() * picked.len()}),
        assumptions: vec!["values come from the boundary alphabets; W-bytes are produced by refbin".into()],
        exhaustive: replay.is_none(),
        extra: json!({}),
    };
    ev::finish(rep, st, start)
}

#[allow(dead_code)]
fn unused(_: &V) {}
