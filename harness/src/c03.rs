//! C03 (engine E2): explicit-state exploration of operation sequences on the real container
//! `Writer`. States are canonical snapshots (hook H2 + sink + reference model); every discovered
//! state is closed with each terminal (into_inner / drop / reopen+append) and the file is read back.

use crate::ev::{self, guarded, hex, Report, Stats, Tier};
use apache_avro::types::Value;
use apache_avro::writer::Clearable;
use apache_avro::{Bzip2Settings, Codec, DeflateSettings, Reader, Schema, Writer, XzSettings, ZstandardSettings};
use rayon::prelude::*;
use serde::Serialize;
use serde_json::{json, Value as J};
use std::cell::RefCell;
use std::collections::{BTreeMap, HashSet};
use std::io::Write;
use std::rc::Rc;
use std::time::Instant;

#[derive(Clone, Default)]
pub struct Sink(pub Rc<RefCell<Vec<u8>>>);

impl Write for Sink {
    fn write(&mut self, buf: &[u8]) -> std::io::Result<usize> {
        self.0.borrow_mut().extend_from_slice(buf);
        Ok(buf.len())
    }
    fn flush(&mut self) -> std::io::Result<()> {
        Ok(())
    }
}

impl Clearable for Sink {
    fn clear(&mut self) {
        self.0.borrow_mut().clear();
    }
}

#[derive(Clone, Copy, Debug, PartialEq, Eq, Hash, PartialOrd, Ord)]
pub enum Op {
    AppendSmall,
    AppendRefBig,
    UnvalidatedSmall,
    AppendSer,
    Extend2,
    ExtendSer2,
    ExtendSlice2,
    Flush,
    FailValidate,
    FailEncode,
    FailSer,
    MetaOk,
    MetaAvro,
    Reset,
}

pub const OPS: [Op; 14] = [
    Op::AppendSmall,
    Op::Flush,
    Op::AppendRefBig,
    Op::FailEncode,
    Op::FailSer,
    Op::FailValidate,
    Op::AppendSer,
    Op::UnvalidatedSmall,
    Op::Extend2,
    Op::ExtendSer2,
    Op::ExtendSlice2,
    Op::MetaOk,
    Op::MetaAvro,
    Op::Reset,
];

#[derive(Clone, Copy, Debug, PartialEq)]
pub enum Terminal {
    IntoInner,
    Drop,
    Reopen,
}

#[derive(Serialize, Clone)]
struct RecGood {
    a: i64,
    b: String,
}
#[derive(Serialize, Clone)]
struct RecBad {
    a: i64,
    b: bool,
}

#[derive(Clone)]
pub struct SchemaKit {
    pub name: &'static str,
    pub text: &'static str,
    pub small: Value,
    pub big: Value,
    pub small2: Value,
    pub bad_validate: Value,
    pub bad_encode: Value,
}

fn rec(a: i64, b: &str) -> Value {
    Value::Record(vec![("a".into(), Value::Long(a)), ("b".into(), Value::String(b.into()))])
}

pub fn kits() -> Vec<SchemaKit> {
    vec![
        SchemaKit {
            name: "null",
            text: r#""null""#,
            small: Value::Null,
            big: Value::Null,
            small2: Value::Null,
            bad_validate: Value::Int(1),
            bad_encode: Value::Array(vec![Value::Null]),
        },
        SchemaKit {
            name: "int",
            text: r#""int""#,
            small: Value::Int(1),
            big: Value::Int(1 << 20),
            small2: Value::Int(-3),
            bad_validate: Value::String("x".into()),
            bad_encode: Value::Array(vec![Value::Int(1)]),
        },
        SchemaKit {
            name: "string",
            text: r#""string""#,
            small: Value::String("ab".into()),
            big: Value::String("0123456789012345678901234567890123456789".into()),
            small2: Value::String("é".into()),
            bad_validate: Value::Int(7),
            bad_encode: Value::Array(vec![]),
        },
        SchemaKit {
            name: "record",
            text: r#"{"type":"record","name":"R","fields":[{"name":"a","type":"long"},{"name":"b","type":"string"}]}"#,
            small: rec(1, "x"),
            big: rec(i64::MAX, "012345678901234567890123456789"),
            small2: rec(-2, ""),
            bad_validate: Value::Record(vec![("a".into(), Value::Long(1))]),
            // the encoder writes field `a` and then fails on field `b`
            bad_encode: Value::Record(vec![("a".into(), Value::Long(77)), ("b".into(), Value::Array(vec![]))]),
        },
    ]
}

pub fn codecs() -> Vec<(&'static str, Codec)> {
    vec![
        ("null", Codec::Null),
        ("deflate", Codec::Deflate(DeflateSettings::default())),
        ("snappy", Codec::Snappy),
        ("zstandard", Codec::Zstandard(ZstandardSettings::default())),
        ("bzip2", Codec::Bzip2(Bzip2Settings::new(1))),
        ("xz", Codec::Xz(XzSettings::new(1))),
    ]
}

#[derive(Clone)]
pub struct Config {
    pub kit: SchemaKit,
    pub codec_name: &'static str,
    pub codec: Codec,
    pub block_size: usize,
}

/// The reference model: a plain list of accepted values and the metadata map.
#[derive(Clone, Default, Debug, PartialEq)]
pub struct Model {
    pub values: Vec<Value>,
    pub meta: BTreeMap<String, Vec<u8>>,
    pub header: bool,
    pub meta_n: usize,
}

const MARKER: [u8; 16] = [0xA5, 1, 2, 3, 4, 5, 6, 7, 8, 9, 10, 11, 12, 13, 14, 0x5A];

pub struct RunOut {
    pub key: Vec<u8>,
    pub bytes: Vec<u8>,
    pub model: Model,
    /// first divergence between an operation's result and the model's expectation
    pub op_violation: Option<String>,
    pub transitions: u64,
}

fn canon_sink(bytes: &[u8], marker: &[u8; 16]) -> Vec<u8> {
    // replace the (possibly random, after reset) marker by a fixed pattern
    let mut out = bytes.to_vec();
    if marker != &MARKER {
        let mut i = 0;
        while i + 16 <= out.len() {
            if &out[i..i + 16] == marker {
                out[i..i + 16].copy_from_slice(&MARKER);
                i += 16;
            } else {
                i += 1;
            }
        }
    }
    out
}

fn apply_ser_small(w: &mut Writer<Sink>, kit: &SchemaKit) -> apache_avro::AvroResult<usize> {
    match kit.name {
        "null" => w.append_ser(()),
        "int" => w.append_ser(5i32),
        "string" => w.append_ser("ser"),
        _ => w.append_ser(RecGood { a: 9, b: "s".into() }),
    }
}

fn ser_small_value(kit: &SchemaKit) -> Value {
    match kit.name {
        "null" => Value::Null,
        "int" => Value::Int(5),
        "string" => Value::String("ser".into()),
        _ => rec(9, "s"),
    }
}

fn apply_ser_bad(w: &mut Writer<Sink>, kit: &SchemaKit) -> apache_avro::AvroResult<usize> {
    match kit.name {
        "null" => w.append_ser(3i32),
        "int" => w.append_ser("nope"),
        "string" => w.append_ser(3.5f64),
        _ => w.append_ser(RecBad { a: 9, b: true }),
    }
}

/// Execute a history on a fresh real writer, then the terminal; returns the canonical key of the
/// state reached *before* the terminal, the final sink bytes and the model.
pub fn run(cfg: &Config, schema: &Schema, hist: &[Op], term: Terminal) -> Result<RunOut, String> {
    let sink = Sink::default();
    let mut model = Model::default();
    let mut op_violation: Option<String> = None;
    let mut transitions = 0u64;
    let mut w = Writer::builder().schema(schema).writer(sink.clone()).codec(cfg.codec).block_size(cfg.block_size).marker(MARKER).build().map_err(|e| e.to_string())?;
    let kit = &cfg.kit;
    for (i, op) in hist.iter().enumerate() {
        transitions += 1;
        let mut expect = |ok_expected: bool, r: Result<(), String>, what: &str| {
            if ok_expected != r.is_ok() && op_violation.is_none() {
                op_violation = Some(format!("step {i} {op:?}: {what}: expected {} but got {r:?}", if ok_expected { "Ok" } else { "Err" }));
            }
        };
        let unit = |r: apache_avro::AvroResult<usize>| r.map(|_| ()).map_err(|e| e.to_string());
        match op {
            Op::AppendSmall => {
                expect(true, unit(w.append_value(kit.small.clone())), "append of a conforming value");
                model.values.push(kit.small.clone());
                model.header = true;
            }
            Op::AppendRefBig => {
                expect(true, unit(w.append_value_ref(&kit.big)), "append_value_ref of a conforming value");
                model.values.push(kit.big.clone());
                model.header = true;
            }
            Op::UnvalidatedSmall => {
                expect(true, unit(w.unvalidated_append_value(kit.small2.clone())), "unvalidated append of a conforming value");
                model.values.push(kit.small2.clone());
                model.header = true;
            }
            Op::AppendSer => {
                expect(true, unit(apply_ser_small(&mut w, kit)), "append_ser of a matching value");
                model.values.push(ser_small_value(kit));
                model.header = true;
            }
            Op::Extend2 => {
                expect(true, unit(w.extend(vec![kit.small.clone(), kit.big.clone()])), "extend");
                model.values.push(kit.small.clone());
                model.values.push(kit.big.clone());
                model.header = true;
            }
            Op::ExtendSlice2 => {
                expect(true, unit(w.extend_from_slice(&[kit.small2.clone(), kit.small.clone()])), "extend_from_slice");
                model.values.push(kit.small2.clone());
                model.values.push(kit.small.clone());
                model.header = true;
            }
            Op::ExtendSer2 => {
                let r = match kit.name {
                    "null" => w.extend_ser(vec![(), ()]),
                    "int" => w.extend_ser(vec![5i32, 5]),
                    "string" => w.extend_ser(vec!["ser", "ser"]),
                    _ => w.extend_ser(vec![RecGood { a: 9, b: "s".into() }, RecGood { a: 9, b: "s".into() }]),
                };
                expect(true, unit(r), "extend_ser");
                model.values.push(ser_small_value(kit));
                model.values.push(ser_small_value(kit));
                model.header = true;
            }
            Op::Flush => {
                expect(true, unit(w.flush()), "flush");
                model.header = true;
            }
            Op::FailValidate => {
                expect(false, unit(w.append_value(kit.bad_validate.clone())), "append of a value that does not validate");
            }
            Op::FailEncode => {
                expect(false, unit(w.unvalidated_append_value(kit.bad_encode.clone())), "unvalidated append of a value the encoder rejects");
                // the header may legitimately have been written before the failure
                model.header = true;
            }
            Op::FailSer => {
                expect(false, unit(apply_ser_bad(&mut w, kit)), "append_ser of a value that does not match the schema");
                model.header = true;
            }
            Op::MetaOk => {
                let key = format!("k{}", model.meta_n);
                let val = vec![model.meta_n as u8, 0xff, 0x00];
                let r = w.add_user_metadata(key.clone(), &val).map_err(|e| e.to_string());
                if model.header {
                    expect(false, r, "add_user_metadata after the header was written");
                } else {
                    expect(true, r, "add_user_metadata before the header");
                    model.meta.insert(key, val);
                    model.meta_n += 1;
                }
            }
            Op::MetaAvro => {
                expect(false, w.add_user_metadata("avro.x".into(), b"v").map_err(|e| e.to_string()), "add_user_metadata with a reserved key");
            }
            Op::Reset => {
                w.reset();
                model = Model { meta_n: model.meta_n, ..Model::default() };
            }
        }
    }
    // canonical state key (hook H2 + sink + model)
    let mut key = vec![];
    #[cfg(feature = "hooks")]
    {
        let ws = w.verif_state();
        key.extend_from_slice(&(ws.buffer.len() as u32).to_le_bytes());
        key.extend_from_slice(&ws.buffer);
        key.extend_from_slice(&(ws.num_values as u32).to_le_bytes());
        key.push(ws.has_header as u8);
        for (k, v) in &ws.user_metadata {
            key.extend_from_slice(k.as_bytes());
            key.push(0);
            key.extend_from_slice(v);
            key.push(0);
        }
        key.push(0xfe);
        key.extend_from_slice(&canon_sink(&sink.0.borrow(), &ws.marker));
    }
    // without the hook the writer's pending state cannot be seen: no two histories are merged
    #[cfg(not(feature = "hooks"))]
    {
        key.extend_from_slice(format!("{hist:?}").as_bytes());
        key.push(0xfe);
        let _ = canon_sink(&sink.0.borrow(), &MARKER);
    }
    key.push(0xfd);
    key.extend_from_slice(format!("{:?}", model).as_bytes());
    // terminal
    transitions += 1;
    match term {
        Terminal::IntoInner => {
            w.into_inner().map_err(|e| format!("into_inner failed: {e}"))?;
        }
        Terminal::Drop => drop(w),
        Terminal::Reopen => {
            w.into_inner().map_err(|e| format!("into_inner failed: {e}"))?;
            let marker = apache_avro::read_marker(&sink.0.borrow());
            let mut w2 = Writer::append_to_with_codec(schema, sink.clone(), cfg.codec, marker).map_err(|e| e.to_string())?;
            w2.append_value(kit.small2.clone()).map_err(|e| format!("append after reopen failed: {e}"))?;
            w2.append_value_ref(&kit.big).map_err(|e| format!("append after reopen failed: {e}"))?;
            model.values.push(kit.small2.clone());
            model.values.push(kit.big.clone());
            transitions += 3;
            drop(w2);
        }
    }
    let bytes = sink.0.borrow().clone();
    Ok(RunOut { key, bytes, model, op_violation, transitions })
}

/// Read the file back with the real reader and compare with the model.
pub fn read_back(bytes: &[u8], schema: &Schema, model: &Model) -> Result<(), String> {
    let reader = Reader::new(bytes).map_err(|e| format!("Reader::new failed: {e}"))?;
    if reader.writer_schema() != schema {
        return Err(format!("writer schema differs: {:?}", reader.writer_schema()));
    }
    let meta: BTreeMap<String, Vec<u8>> = reader.user_metadata().iter().map(|(k, v)| (k.clone(), v.clone())).collect();
    if meta != model.meta {
        return Err(format!("user metadata differs: file {meta:?} model {:?}", model.meta));
    }
    let mut got = vec![];
    for item in reader {
        match item {
            Ok(v) => got.push(v),
            Err(e) => return Err(format!("reader error after {} values: {e}", got.len())),
        }
    }
    if got != model.values {
        return Err(format!("values differ: file has {} {:?}, model has {} {:?}", got.len(), ev::trunc(&format!("{got:?}"), 300), model.values.len(), ev::trunc(&format!("{:?}", model.values), 300)));
    }
    Ok(())
}

fn block_sizes(cfg_kit: &SchemaKit, schema: &Schema) -> Vec<usize> {
    let small_len = apache_avro::to_avro_datum(schema, cfg_kit.small.clone()).map(|b| b.len()).unwrap_or(1);
    let mut v = vec![0, 1, small_len, small_len + 1, 16000];
    v.sort();
    v.dedup();
    v
}

/// Classify a failure as a recorded deviation (exact predicate), if it is one.
fn classify(hist: &[Op], _term: Terminal, msg: &str) -> Option<&'static str> {
    let _ = (hist, msg);
    None
}

pub fn explore(cfg: &Config, depth: usize, cfg_idx: usize) -> Stats {
    let mut st = Stats::default();
    let schema = Schema::parse_str(cfg.kit.text).expect("kit schema");
    let mut seen: HashSet<Vec<u8>> = HashSet::new();
    let mut frontier: Vec<Vec<Op>> = vec![vec![]];
    let cfg_json = json!({"schema": cfg.kit.name, "codec": cfg.codec_name, "block_size": cfg.block_size});
    let mut order = (cfg_idx as u64) << 40;
    for d in 0..=depth {
        let mut next = vec![];
        for hist in &frontier {
            // the state reached by `hist` is new (or the root): close it with every terminal
            for term in [Terminal::IntoInner, Terminal::Drop, Terminal::Reopen] {
                order += 1;
                st.evaluations += 1;
                let res = guarded(|| run(cfg, &schema, hist, term));
                let verdict: Result<(), String> = match res {
                    Err(p) => Err(format!("panic: {p}")),
                    Ok(Err(e)) => Err(e),
                    Ok(Ok(out)) => {
                        st.transitions += out.transitions;
                        match out.op_violation {
                            Some(v) => Err(v),
                            None => read_back(&out.bytes, &schema, &out.model),
                        }
                    }
                };
                match verdict {
                    Ok(()) => st.outcome(&format!("ok-{term:?}")),
                    Err(msg) => {
                        if let Some(dev) = classify(hist, term, &msg) {
                            st.outcome("known-deviation");
                            st.deviation(dev, || json!({"config": cfg_json, "history": format!("{hist:?}"), "terminal": format!("{term:?}"), "observed": msg}));
                        } else {
                            st.outcome("violation");
                            st.violate(order, "file does not read back as the model", json!({"config": cfg_json, "history": format!("{hist:?}"), "terminal": format!("{term:?}"), "observed": msg}), json!({"config_idx": cfg_idx, "history": hist.iter().map(|o| format!("{o:?}")).collect::<Vec<_>>(), "terminal": format!("{term:?}")}));
                        }
                    }
                }
            }
            if d == depth {
                continue;
            }
            for op in OPS {
                let mut h2 = hist.clone();
                h2.push(op);
                match guarded(|| run(cfg, &schema, &h2, Terminal::Drop)) {
                    Ok(Ok(out)) => {
                        st.transitions += out.transitions;
                        if seen.insert(out.key) {
                            st.states += 1;
                            if h2.iter().filter(|o| matches!(o, Op::AppendSmall | Op::AppendRefBig | Op::AppendSer | Op::UnvalidatedSmall | Op::Extend2 | Op::ExtendSer2 | Op::ExtendSlice2)).count() >= 1
                                && h2.iter().any(|o| matches!(o, Op::Flush | Op::FailEncode | Op::FailSer | Op::FailValidate | Op::Reset | Op::MetaOk))
                            {
                                st.class(format!("{}|{}|{}|{:?}", cfg.kit.name, cfg.codec_name, cfg.block_size, h2));
                            }
                            st.sample(|| json!({"config": cfg_json, "history": format!("{h2:?}")}));
                            next.push(h2);
                        }
                    }
                    // a history that cannot even be executed is reported when its prefix state is closed;
                    // here it is simply not extended
                    _ => {
                        st.outcome("unextendable");
                        order += 1;
                        st.violate(order, "operation sequence panicked or the writer could not be built", json!({"config": cfg_json, "history": format!("{h2:?}")}), json!({"config_idx": cfg_idx, "history": h2.iter().map(|o| format!("{o:?}")).collect::<Vec<_>>(), "terminal": "Drop"}));
                    }
                }
            }
        }
        frontier = next;
        if frontier.is_empty() {
            break;
        }
    }
    st
}

pub fn configs() -> Vec<Config> {
    let mut out = vec![];
    for kit in kits() {
        let schema = Schema::parse_str(kit.text).expect("kit schema");
        for (cn, c) in codecs() {
            for bs in block_sizes(&kit, &schema) {
                out.push(Config { kit: kit.clone(), codec_name: cn, codec: c, block_size: bs });
            }
        }
    }
    out
}

pub fn run_check(tier: Tier, replay: Option<&J>) -> i32 {
    let start = Instant::now();
    let cfgs = configs();
    if let Some(r) = replay {
        return replay_case(&cfgs, r);
    }
    let depth_for = |c: &Config| -> usize {
        let heavy = matches!(c.codec_name, "xz" | "bzip2" | "zstandard");
        match (tier, heavy) {
            (Tier::Quick, false) => 3,
            (Tier::Quick, true) => 1,
            (Tier::Thorough, false) => 5,
            (Tier::Thorough, true) => 3,
        }
    };
    // (built without hook H2 every history is its own state: the same histories are executed, none merged)
    let st = cfgs.par_iter().enumerate().map(|(i, c)| explore(c, depth_for(c), i)).reduce(Stats::default, Stats::merge);
    let rep = Report {
        id: "C03".into(),
        tier,
        level: "model_checking",
        rule: "breadth-first explicit-state exploration of operation sequences on the real Writer; a state is the canonical (hook snapshot of pending buffer/count/header flag/metadata, sink bytes with the marker normalised, reference model) tuple; every state is closed with into_inner, drop and reopen+append and read back; a class is a (configuration, history) that mixes an append with a flush/failing append/reset/metadata operation".into(),
        bounds: json!({"configurations": cfgs.len(), "ops": OPS.len(), "depth_light_codecs": depth_for(&cfgs[0]), "depth_heavy_codecs": depth_for(cfgs.last().unwrap()), "schemas": ["null","int","string","record{long,string}"], "codecs": codecs().iter().map(|c| c.0).collect::<Vec<_>>(), "block_sizes": "0, 1, |small|, |small|+1, 16000"}),
        assumptions: vec!["states with equal canonical snapshots have equal futures for a fixed configuration (writer fields not in the snapshot are configuration constants)".into(), "xz/bzip2 run at level 1 during exploration; levels are C15's subject".into()],
        exhaustive: true,
        extra: json!({}),
    };
    ev::finish(rep, st, start)
}

fn parse_op(s: &str) -> Op {
    OPS.iter().copied().find(|o| format!("{o:?}") == s).unwrap_or_else(|| ev::machinery(&format!("unknown op {s}")))
}

fn replay_case(cfgs: &[Config], r: &J) -> i32 {
    let cfg = &cfgs[r["config_idx"].as_u64().unwrap_or(0) as usize];
    let hist: Vec<Op> = r["history"].as_array().map(|a| a.iter().map(|x| parse_op(x.as_str().unwrap())).collect()).unwrap_or_default();
    let term = match r["terminal"].as_str().unwrap_or("IntoInner") {
        "Drop" => Terminal::Drop,
        "Reopen" => Terminal::Reopen,
        _ => Terminal::IntoInner,
    };
    let schema = Schema::parse_str(cfg.kit.text).expect("kit schema");
    let once = || -> String {
        match guarded(|| run(cfg, &schema, &hist, term)) {
            Err(p) => format!("panic: {p}"),
            Ok(Err(e)) => format!("error: {e}"),
            Ok(Ok(out)) => match out.op_violation {
                Some(v) => format!("op: {v}"),
                None => match read_back(&out.bytes, &schema, &out.model) {
                    Ok(()) => format!("ok file={}", hex(&out.bytes[..out.bytes.len().min(64)])),
                    Err(e) => format!("readback: {e}"),
                },
            },
        }
    };
    let (a, b) = (once(), once());
    if a != b {
        ev::machinery(&format!("replay diverged: {a} vs {b}"));
    }
    println!("replay C03 config={} {} bs={} history={hist:?} terminal={term:?}: {a}", cfg.kit.name, cfg.codec_name, cfg.block_size);
    if a.starts_with("ok") {
        0
    } else {
        println!("VIOLATION property=C03 replay=(replayed)");
        1
    }
}
