//! C20: multi-schema parsing is independent of input order and of the pending-map drain order.
//! The hash-map order is replaced by an enumerated choice (hook H3), explored exhaustively.

use crate::ast::{full_name, join, primitive};
use crate::ev::{self, guarded, Report, Stats, Tier};
use apache_avro::Schema;
use rayon::prelude::*;
use serde_json::{json, Value as J};
use std::cell::RefCell;
use std::collections::{BTreeMap, BTreeSet};
use std::rc::Rc;
use std::time::Instant;

pub fn family() -> Vec<(&'static str, J)> {
    vec![
        ("A->B", json!({"type":"record","name":"A","fields":[{"name":"b","type":"B"}]})),
        ("B", json!({"type":"record","name":"B","fields":[{"name":"x","type":"int"}]})),
        ("C->A,B", json!({"type":"record","name":"C","fields":[{"name":"b","type":"B"},{"name":"a","type":["null","A"]}]})),
        ("P<->Q", json!({"type":"record","name":"P","fields":[{"name":"q","type":["null","Q"]}]})),
        ("Q<->P", json!({"type":"record","name":"Q","fields":[{"name":"p","type":["null","P"]},{"name":"v","type":"long"}]})),
        ("n1.X->n2.Y", json!({"type":"record","name":"X","namespace":"n1","fields":[{"name":"y","type":"n2.Y"}]})),
        ("n2.Y", json!({"type":"record","name":"Y","namespace":"n2","fields":[{"name":"v","type":"long"}]})),
        ("n1.R->S(relative)", json!({"type":"record","name":"R","namespace":"n1","fields":[{"name":"s","type":{"type":"array","items":"S"}}]})),
        ("n1.S", json!({"type":"enum","name":"n1.S","symbols":["U","V"]})),
        ("Outer{Inner}", json!({"type":"record","name":"Outer","fields":[{"name":"inner","type":{"type":"record","name":"Inner","fields":[{"name":"k","type":"string"}]}}]})),
        ("UsesInner", json!({"type":"record","name":"UsesInner","fields":[{"name":"i","type":{"type":"map","values":"Inner"}}]})),
        ("Holder{B}", json!({"type":"record","name":"Holder","fields":[{"name":"hb","type":{"type":"record","name":"B","fields":[{"name":"x","type":"int"}]}}]})),
        ("Dangling", json!({"type":"record","name":"Dangling","fields":[{"name":"z","type":"Nowhere"}]})),
        ("F", json!({"type":"fixed","name":"F","size":4})),
        ("UsesF,n2.Y", json!({"type":"record","name":"UsesF","namespace":"n2","fields":[{"name":"f","type":".F"},{"name":"y","type":["null","Y"]}]})),
        // a record that refers back to itself / to its referrer AFTER a field that refers to another input
        ("Node->Payload,Node", json!({"type":"record","name":"Node","fields":[{"name":"payload","type":"Payload"},{"name":"next","type":["null","Node"]}]})),
        ("Payload", json!({"type":"record","name":"Payload","fields":[{"name":"v","type":"int"}]})),
        ("M->B,N", json!({"type":"record","name":"M","fields":[{"name":"b","type":"B"},{"name":"n","type":"N"}]})),
        ("N->M", json!({"type":"record","name":"N","fields":[{"name":"m","type":["null","M"]}]})),
        ("n4.W->B(bare)", json!({"type":"record","name":"W","namespace":"n4","fields":[{"name":"b","type":"B"}]})),
        ("n3.T->.B", json!({"type":"record","name":"T","namespace":"n3","fields":[{"name":"b","type":".B"},{"name":"own","type":{"type":"fixed","name":"Own","size":1}}]})),
    ]
}

/// Long reference chains (quick: 20 links; also with array hops).
pub fn chain(n: usize, hops: bool) -> Vec<J> {
    (0..n)
        .map(|i| {
            let next: J = if i + 1 == n {
                json!("int")
            } else if hops {
                json!(["null", {"type":"array","items": format!("L{}", i + 1)}])
            } else {
                json!(format!("L{}", i + 1))
            };
            json!({"type":"record","name": format!("L{i}"),"fields":[{"name":"next","type": next}]})
        })
        .collect()
}

/// Reference predicate: every reference resolvable inside the set and no full name defined twice.
pub fn should_succeed(set: &[&J]) -> Result<(), String> {
    fn defs(j: &J, ns: Option<&str>, out: &mut Vec<String>) {
        match j {
            J::Array(a) => a.iter().for_each(|x| defs(x, ns, out)),
            J::Object(o) => {
                let ty = o.get("type");
                match ty.and_then(|t| t.as_str()) {
                    Some("record" | "error" | "enum" | "fixed") => {
                        let name = o.get("name").and_then(|n| n.as_str()).unwrap_or("");
                        let (n2, simple) = full_name(name, o.get("namespace").and_then(|n| n.as_str()), ns);
                        out.push(join(&n2, &simple));
                        if let Some(fs) = o.get("fields").and_then(|f| f.as_array()) {
                            for f in fs {
                                if let Some(t) = f.get("type") {
                                    defs(t, n2.as_deref(), out);
                                }
                            }
                        }
                    }
                    Some("array") => defs(o.get("items").unwrap_or(&J::Null), ns, out),
                    Some("map") => defs(o.get("values").unwrap_or(&J::Null), ns, out),
                    Some(_) => {}
                    None => {
                        if let Some(t) = ty {
                            defs(t, ns, out)
                        }
                    }
                }
            }
            _ => {}
        }
    }
    fn refs(j: &J, ns: Option<&str>, all: &BTreeSet<String>, grey: &mut bool) -> Result<(), String> {
        match j {
            J::String(s) => {
                if primitive(s).is_none() {
                    let full = if s.contains('.') { s.trim_start_matches('.').to_string() } else { join(&ns.map(|x| x.to_string()), s) };
                    if !all.contains(&full) {
                        // an unqualified name inside a namespace that exists only in the null namespace: the
                        // specification resolves it in the enclosing namespace only, the Java implementation
                        // falls back to the null namespace - either answer is accepted, but it must not
                        // depend on the order
                        if !s.contains('.') && ns.is_some() && all.contains(s.as_str()) {
                            *grey = true;
                            return Ok(());
                        }
                        return Err(format!("reference {s} ({full}) is not defined in the set"));
                    }
                }
                Ok(())
            }
            J::Array(a) => a.iter().try_for_each(|x| refs(x, ns, all, grey)),
            J::Object(o) => {
                let ty = o.get("type");
                match ty.and_then(|t| t.as_str()) {
                    Some("record" | "error") => {
                        let name = o.get("name").and_then(|n| n.as_str()).unwrap_or("");
                        let (n2, _) = full_name(name, o.get("namespace").and_then(|n| n.as_str()), ns);
                        for f in o.get("fields").and_then(|f| f.as_array()).cloned().unwrap_or_default() {
                            if let Some(t) = f.get("type") {
                                refs(t, n2.as_deref(), all, grey)?;
                            }
                        }
                        Ok(())
                    }
                    Some("enum" | "fixed") => Ok(()),
                    Some("array") => refs(o.get("items").unwrap_or(&J::Null), ns, all, grey),
                    Some("map") => refs(o.get("values").unwrap_or(&J::Null), ns, all, grey),
                    Some(other) => refs(&J::String(other.to_string()), ns, all, grey),
                    None => match ty {
                        Some(t) => refs(t, ns, all, grey),
                        None => Err("no type".into()),
                    },
                }
            }
            _ => Err("not a schema".into()),
        }
    }
    let mut all = vec![];
    for j in set {
        defs(j, None, &mut all);
    }
    let mut seen = BTreeSet::new();
    for d in &all {
        if !seen.insert(d.clone()) {
            return Err(format!("full name {d} is defined twice"));
        }
    }
    let mut grey = false;
    for j in set {
        refs(j, None, &seen, &mut grey)?;
    }
    if grey {
        return Err("GREY: an unqualified reference resolves only through the null namespace".into());
    }
    Ok(())
}

fn top_name(j: &J) -> String {
    let name = j.get("name").and_then(|n| n.as_str()).unwrap_or("");
    let (ns, simple) = full_name(name, j.get("namespace").and_then(|n| n.as_str()), None);
    join(&ns, &simple)
}

#[derive(Debug, Clone, PartialEq)]
pub enum Outcome {
    /// per input (in input order): (full name of the returned schema, its JSON)
    Ok(Vec<(String, String)>),
    Err(String),
    Panic(String),
}

/// One parse with a scripted drain order. Returns the outcome and the number of options at every choice point.
pub fn parse_with(texts: &[String], script: &[usize]) -> (Outcome, Vec<usize>) {
    let points: Rc<RefCell<Vec<usize>>> = Rc::new(RefCell::new(vec![]));
    let p2 = points.clone();
    let script: Vec<usize> = script.to_vec();
    #[cfg(feature = "hooks")]
    apache_avro::verif::set_pending_chooser(Some(Box::new(move |n| {
        let mut p = p2.borrow_mut();
        let i = p.len();
        p.push(n);
        script.get(i).copied().unwrap_or(0)
    })));
    // without hook H3 the drain order is whatever the hash seed of this run gives: nothing to script
    #[cfg(not(feature = "hooks"))]
    let _ = (&p2, &script);
    let r = guarded(|| Schema::parse_list(texts.iter().map(|s| s.as_str())));
    #[cfg(feature = "hooks")]
    apache_avro::verif::set_pending_chooser(None);
    let out = match r {
        Err(p) => Outcome::Panic(p),
        Ok(Err(e)) => Outcome::Err(e.to_string()),
        Ok(Ok(schemas)) => Outcome::Ok(schemas.iter().map(|s| (s.name().map(|n| n.fullname(None)).unwrap_or_default(), serde_json::to_string(s).unwrap_or_default())).collect()),
    };
    let pts = points.borrow().clone();
    (out, pts)
}

/// All drain scripts with at most `bound` deviations from "always take the first pending name".
fn explore_scripts(texts: &[String], bound: usize, mut visit: impl FnMut(&[usize], &Outcome)) -> u64 {
    // without hook H3: eight parses per input order, each with the hash seeds it happens to get
    // (sampling - the run reports it as a cap and is not exhaustive)
    #[cfg(not(feature = "hooks"))]
    {
        let _ = bound;
        for _ in 0..8 {
            let (out, _) = parse_with(texts, &[]);
            visit(&[], &out);
        }
        return 8;
    }
    #[cfg(feature = "hooks")]
    explore_scripts_hooked(texts, bound, &mut visit)
}

#[cfg(feature = "hooks")]
fn explore_scripts_hooked(texts: &[String], bound: usize, visit: &mut dyn FnMut(&[usize], &Outcome)) -> u64 {
    let mut runs = 0u64;
    let mut stack: Vec<Vec<usize>> = vec![vec![]];
    while let Some(prefix) = stack.pop() {
        let (out, points) = parse_with(texts, &prefix);
        runs += 1;
        visit(&prefix, &out);
        let devs = prefix.iter().filter(|&&c| c != 0).count();
        if devs >= bound {
            continue;
        }
        for i in prefix.len()..points.len() {
            for alt in 1..points[i] {
                let mut p = prefix.clone();
                p.resize(i, 0);
                p.push(alt);
                stack.push(p);
            }
        }
    }
    runs
}

fn permutations<T: Clone>(v: &[T]) -> Vec<Vec<T>> {
    if v.len() <= 1 {
        return vec![v.to_vec()];
    }
    let mut out = vec![];
    for i in 0..v.len() {
        let mut rest = v.to_vec();
        let x = rest.remove(i);
        for mut p in permutations(&rest) {
            p.insert(0, x.clone());
            out.push(p);
        }
    }
    out
}

fn subsets(n: usize, k: usize) -> Vec<Vec<usize>> {
    let mut out = vec![];
    fn rec(start: usize, n: usize, k: usize, cur: &mut Vec<usize>, out: &mut Vec<Vec<usize>>) {
        if !cur.is_empty() {
            out.push(cur.clone());
        }
        if cur.len() == k {
            return;
        }
        for i in start..n {
            cur.push(i);
            rec(i + 1, n, k, cur, out);
            cur.pop();
        }
    }
    rec(0, n, k, &mut vec![], &mut out);
    out
}

/// Recorded deviations by input pattern.
fn deviation(set: &[&J], clause: &str) -> Option<&'static str> {
    // full names defined at the top level of an input vs nested inside one
    let tops: BTreeSet<String> = set.iter().map(|j| top_name(j)).collect();
    let mut nested: Vec<String> = vec![];
    fn nested_defs(j: &J, ns: Option<&str>, top: bool, out: &mut Vec<String>) {
        match j {
            J::Array(a) => a.iter().for_each(|x| nested_defs(x, ns, false, out)),
            J::Object(o) => match o.get("type").and_then(|t| t.as_str()) {
                Some("record" | "enum" | "fixed") => {
                    let name = o.get("name").and_then(|n| n.as_str()).unwrap_or("");
                    let (n2, simple) = full_name(name, o.get("namespace").and_then(|n| n.as_str()), ns);
                    if !top {
                        out.push(join(&n2, &simple));
                    }
                    for f in o.get("fields").and_then(|f| f.as_array()).cloned().unwrap_or_default() {
                        if let Some(t) = f.get("type") {
                            nested_defs(t, n2.as_deref(), false, out);
                        }
                    }
                }
                Some("array") => nested_defs(o.get("items").unwrap_or(&J::Null), ns, false, out),
                Some("map") => nested_defs(o.get("values").unwrap_or(&J::Null), ns, false, out),
                _ => {}
            },
            _ => {}
        }
    }
    for j in set {
        nested_defs(j, None, true, &mut nested);
    }
    let dup_with_nested = nested.iter().any(|n| tops.contains(n)) || {
        let mut s = BTreeSet::new();
        nested.iter().any(|n| !s.insert(n.clone()))
    };
    // is some nested definition referenced from an input that does not contain it?
    let text_refs_nested = set.iter().any(|j| {
        let mine: Vec<String> = {
            let mut v = vec![];
            nested_defs(j, None, true, &mut v);
            v
        };
        let text = j.to_string();
        nested.iter().any(|n| {
            let simple = n.rsplit('.').next().unwrap_or(n);
            !mine.contains(n) && (text.contains(&format!("\"{simple}\"")) || text.contains(&format!(".{simple}\"")))
        })
    });
    // a namespaced input that refers to a null-namespace type with a leading dot (".B")
    let dot_ref_in_namespace = set.iter().any(|j| top_name(j).contains('.') && (j.to_string().contains(":\".") || j.to_string().contains("[\".") || j.to_string().contains(",\".")));
    match clause {
        "values-do-not-travel-between-orderings" if dot_ref_in_namespace => Some("D-C20-null-namespace-reference-inside-a-namespace-is-lost-once-parsed"),
        "unresolvable-or-conflicting-set-accepted" if dup_with_nested => Some("D-C20-definition-nested-in-one-input-duplicating-another-accepted"),
        "resolvable-set-rejected" | "outcome-depends-on-order" | "definition-depends-on-order" if text_refs_nested && !dup_with_nested => Some("D-C20-nested-definition-referenced-from-another-input-depends-on-order"),
        _ => None,
    }
}

/// "Values encoded with a schema obtained from one ordering decode identically with the corresponding
/// schema obtained from any other ordering": every value of every input's boundary alphabet is written with
/// the schemata of one ordering (bytes compared with the independent encoder) and read with another's.
fn codec_clause(set: &[J], perms: &[Vec<usize>], st: &mut Stats) -> Result<(), String> {
    use crate::val::{from_lib, to_lib, values, veq};
    use apache_avro::reader::datum::GenericDatumReader;
    use apache_avro::writer::datum::GenericDatumWriter;
    let refs: Vec<&J> = set.iter().collect();
    let Ok((roots, env)) = crate::ast::refparse_set(&refs) else { return Ok(()) };
    // the schemata under each ordering, re-indexed by input
    let mut per_order: Vec<Vec<Schema>> = vec![];
    for perm in perms.iter().take(2) {
        let texts: Vec<String> = perm.iter().map(|&i| set[i].to_string()).collect();
        let parsed = match guarded(|| Schema::parse_list(texts.iter().map(|s| s.as_str()))) {
            Ok(Ok(p)) => p,
            _ => return Ok(()), // acceptance is judged above
        };
        let mut by_input: Vec<Option<Schema>> = vec![None; set.len()];
        for (k, &i) in perm.iter().enumerate() {
            by_input[i] = parsed.get(k).cloned();
        }
        per_order.push(by_input.into_iter().map(|s| s.ok_or("missing schema".to_string())).collect::<Result<_, _>>()?);
    }
    if per_order.len() < 2 {
        return Ok(());
    }
    // `schemata` lists are resolved in order (documented: references to schemas later in the list are not
    // supported), so they are handed over definitions-first; a set whose inputs refer to each other in a
    // cycle has no such order and cannot be used this way at all: no verdict
    fn names(s: &crate::ast::S, defs: &mut BTreeSet<String>, refs: &mut BTreeSet<String>) {
        use crate::ast::S;
        match s {
            S::Ref(n) => {
                refs.insert(n.clone());
            }
            S::Array(x) | S::Map(x) | S::Logical(_, x) => names(x, defs, refs),
            S::Union(b) => b.iter().for_each(|x| names(x, defs, refs)),
            S::Record { full, fields, .. } => {
                defs.insert(full.clone());
                fields.iter().for_each(|f| names(&f.ty, defs, refs));
            }
            S::Enum { full, .. } | S::Fixed { full, .. } => {
                defs.insert(full.clone());
            }
            _ => {}
        }
    }
    let dr: Vec<(BTreeSet<String>, BTreeSet<String>)> = roots
        .iter()
        .map(|r| {
            let (mut d, mut f) = (BTreeSet::new(), BTreeSet::new());
            names(r, &mut d, &mut f);
            (d, f)
        })
        .collect();
    let mut order: Vec<usize> = vec![];
    let mut defined: BTreeSet<String> = BTreeSet::new();
    while order.len() < roots.len() {
        let next = (0..roots.len()).find(|i| !order.contains(i) && dr[*i].1.iter().all(|n| defined.contains(n) || dr[*i].0.contains(n)));
        match next {
            Some(i) => {
                defined.extend(dr[i].0.iter().cloned());
                order.push(i);
            }
            None => {
                st.outcome("values-clause-skipped(inputs refer to each other in a cycle)");
                return Ok(());
            }
        }
    }
    for (i, root) in roots.iter().enumerate() {
        for v in values(root, &env, 2, 0).iter().take(24) {
            if v.has_multi_map() {
                continue;
            }
            let lv = to_lib(v, root, &env);
            for (a, b) in [(0usize, 1usize), (1, 0)] {
                st.transitions += 2;
                let r = guarded(|| -> Result<(), String> {
                    let w = GenericDatumWriter::builder(&per_order[a][i]).schemata(order.iter().map(|&k| &per_order[a][k]).collect()).map_err(|e| format!("writer schemata: {e}"))?.build().map_err(|e| format!("writer: {e}"))?;
                    let mut bytes = vec![];
                    w.write_value_ref(&mut bytes, &lv).map_err(|e| format!("input {i}: writing {lv:?} with the schemata of ordering {a} failed: {e}"))?;
                    let expect = crate::refbin::encode(v, root, &env);
                    if bytes != expect {
                        return Err(format!("input {i}: bytes {} differ from the independent encoding {}", ev::hex(&bytes), ev::hex(&expect)));
                    }
                    let rd = GenericDatumReader::builder(&per_order[b][i]).writer_schemata(order.iter().map(|&k| &per_order[b][k]).collect()).map_err(|e| format!("reader schemata: {e}"))?.build().map_err(|e| format!("reader: {e}"))?;
                    let mut cur: &[u8] = &bytes;
                    let got = rd.read_value(&mut cur).map_err(|e| format!("input {i}: value written under ordering {a} is not readable under ordering {b}: {e}"))?;
                    if !cur.is_empty() || !from_lib(&got, root, &env).is_ok_and(|g| veq(&g, v)) {
                        return Err(format!("input {i}: value {lv:?} written under ordering {a} reads as {got:?} under ordering {b}"));
                    }
                    // the same through a container file: Writer::with_schemata under one ordering,
                    // Reader with schemata under the other
                    let mut cw = apache_avro::Writer::with_schemata(&per_order[a][i], order.iter().map(|&k| &per_order[a][k]).collect(), Vec::new(), apache_avro::Codec::Null).map_err(|e| format!("input {i}: Writer::with_schemata (ordering {a}): {e}"))?;
                    cw.append_value_ref(&lv).map_err(|e| format!("input {i}: container append under ordering {a}: {e}"))?;
                    let file = cw.into_inner().map_err(|e| format!("input {i}: container finish: {e}"))?;
                    let mut cr = apache_avro::Reader::builder(&file[..]).schemata(order.iter().map(|&k| &per_order[b][k]).collect()).build().map_err(|e| format!("input {i}: Reader with the schemata of ordering {b} cannot open a file written under ordering {a}: {e}"))?;
                    match cr.next() {
                        Some(Ok(g)) if from_lib(&g, root, &env).is_ok_and(|x| veq(&x, v)) => {}
                        other => return Err(format!("input {i}: container file written under ordering {a} reads as {other:?} under ordering {b}")),
                    }
                    Ok(())
                });
                match r {
                    Ok(Ok(())) => {}
                    Ok(Err(e)) => return Err(e),
                    Err(p) => return Err(format!("panic: {p}")),
                }
            }
        }
    }
    Ok(())
}

fn check_set(label: &str, set: Vec<J>, perms: Vec<Vec<usize>>, bound: usize, ord: u64, st: &mut Stats) {
    let refs: Vec<&J> = set.iter().collect();
    let expect_ok = should_succeed(&refs);
    let grey = matches!(&expect_ok, Err(e) if e.starts_with("GREY"));
    // per input text: the JSON it must come back as (first successful observation)
    let mut canon: BTreeMap<String, String> = BTreeMap::new();
    let mut first_script: Option<String> = None;
    let mut distinct: BTreeSet<String> = BTreeSet::new();
    let mut problems: Vec<(String, String)> = vec![];
    for perm in &perms {
        let texts: Vec<String> = perm.iter().map(|&i| set[i].to_string()).collect();
        let names: Vec<String> = perm.iter().map(|&i| top_name(&set[i])).collect();
        let runs = explore_scripts(&texts, bound, |script, out| {
            st.evaluations += 1;
            let tag = format!("perm {perm:?} drain {script:?}");
            match out {
                Outcome::Panic(p) => problems.push(("panic".into(), format!("{tag}: {p}"))),
                Outcome::Err(e) => {
                    distinct.insert("Err".into());
                    if expect_ok.is_ok() {
                        problems.push(("resolvable-set-rejected".into(), format!("{tag}: {e}")));
                    }
                    let _ = grey;
                }
                Outcome::Ok(schemas) => {
                    distinct.insert("Ok".into());
                    if let (Err(why), false) = (&expect_ok, grey) {
                        problems.push(("unresolvable-or-conflicting-set-accepted".into(), format!("{tag}: reference predicate says: {why}")));
                        return;
                    }
                    if schemas.len() != names.len() {
                        problems.push(("wrong-number-of-schemas".into(), tag.clone()));
                        return;
                    }
                    for (k, (got_name, got_json)) in schemas.iter().enumerate() {
                        if *got_name != names[k] {
                            problems.push(("not-in-input-order".into(), format!("{tag}: position {k} holds {got_name}, input was {}", names[k])));
                        }
                        match canon.get(&names[k]) {
                            None => {
                                canon.insert(names[k].clone(), got_json.clone());
                                first_script.get_or_insert(tag.clone());
                            }
                            Some(prev) if prev != got_json => problems.push(("definition-depends-on-order".into(), format!("{tag}: schema {} is {got_json} but was {prev} under {}", names[k], first_script.clone().unwrap_or_default()))),
                            _ => {}
                        }
                    }
                }
            }
        });
        st.transitions += runs;
    }
    // the secondary entry point: each input in turn as the main schema, the others as its schemata. The
    // schemata are parsed as a set of their own first, so they must be resolvable among themselves, and the
    // whole set must be.
    if !grey && set.len() >= 2 && set.len() <= 4 {
        for i in 0..set.len() {
            let rest: Vec<&J> = set.iter().enumerate().filter(|(k, _)| *k != i).map(|(_, j)| j).collect();
            let rest_ok = should_succeed(&rest);
            if matches!(&rest_ok, Err(e) if e.starts_with("GREY")) {
                continue;
            }
            let want_ok = expect_ok.is_ok() && rest_ok.is_ok();
            let main = set[i].to_string();
            let others: Vec<String> = rest.iter().map(|j| j.to_string()).collect();
            st.transitions += 1;
            let got = guarded(|| Schema::parse_str_with_list(&main, others.iter().map(|s| s.as_str())));
            let tag = format!("parse_str_with_list(main = input {i})");
            match got {
                Err(p) => problems.push(("panic".into(), format!("{tag}: {p}"))),
                Ok(Err(e)) if want_ok => problems.push(("resolvable-set-rejected".into(), format!("{tag}: {e}"))),
                Ok(Ok(_)) if !want_ok => problems.push(("unresolvable-or-conflicting-set-accepted".into(), format!("{tag}: accepted although {}", expect_ok.as_ref().err().or(rest_ok.as_ref().err()).cloned().unwrap_or_default()))),
                Ok(Ok((m, _))) => {
                    if let (Some(prev), Ok(js)) = (canon.get(&top_name(&set[i])), serde_json::to_string(&m)) {
                        if *prev != js {
                            problems.push(("definition-depends-on-order".into(), format!("{tag}: main schema is {js} but parse_list gave {prev}")));
                        }
                    }
                }
                Ok(Err(_)) => {}
            }
        }
    }
    st.states += 1;
    if expect_ok.is_ok() && problems.is_empty() {
        if let Err(e) = codec_clause(&set, &perms, st) {
            problems.push(("values-do-not-travel-between-orderings".into(), e));
        }
    }
    if distinct.len() > 1 {
        problems.push(("outcome-depends-on-order".into(), "the same set succeeds under some orderings and fails under others".into()));
    }
    if problems.is_empty() {
        st.outcome(if expect_ok.is_ok() { "set-accepted-consistently" } else { "set-rejected-consistently" });
        st.class(format!("{label}|{}", expect_ok.is_ok()));
        if set.len() == 2 {
            st.sample(|| json!({"set": label, "expected": if expect_ok.is_ok() { "Ok" } else { "Err" }, "permutations": perms.len()}));
        }
    } else {
        let (clause, detail) = problems[0].clone();
        let case = json!({"set": label, "inputs": set, "reference_predicate": format!("{expect_ok:?}"), "first_problem": detail, "problems": problems.len()});
        match deviation(&refs, &clause) {
            Some(dev) => {
                st.outcome("known-deviation");
                st.deviation(dev, || case);
            }
            None => {
                st.outcome(&format!("violation:{clause}"));
                st.violate(ord, &clause, case, json!({"set": label}));
            }
        }
    }
}

pub fn run(tier: Tier, replay: Option<&J>) -> i32 {
    let start = Instant::now();
    let fam = family();
    let k = match tier {
        Tier::Quick => 4,
        Tier::Thorough => 5,
    };
    let only = replay.and_then(|r| r["set"].as_str()).map(|s| s.to_string());
    let subs = subsets(fam.len(), k);
    let mut st = subs
        .par_iter()
        .enumerate()
        .map(|(si, idxs)| {
            let mut st = Stats::default();
            let label = idxs.iter().map(|&i| fam[i].0).collect::<Vec<_>>().join(" + ");
            if only.as_ref().is_some_and(|o| *o != label) {
                return st;
            }
            let set: Vec<J> = idxs.iter().map(|&i| fam[i].1.clone()).collect();
            let perms = permutations(&(0..set.len()).collect::<Vec<_>>());
            check_set(&label, set, perms, usize::MAX, si as u64, &mut st);
            st
        })
        .reduce(Stats::default, Stats::merge);
    // long chains: identity / reverse / rotated input orders, drain orders with <= 2 deviations
    for (ci, (n, hops)) in [(20usize, false), (12, true), (8, false)].iter().enumerate() {
        let label = format!("chain of {n}{}", if *hops { " with array hops" } else { "" });
        if only.as_ref().is_some_and(|o| *o != label) {
            continue;
        }
        let set = chain(*n, *hops);
        let id: Vec<usize> = (0..*n).collect();
        let mut rev = id.clone();
        rev.reverse();
        let mut rot = id.clone();
        rot.rotate_left(n / 2);
        check_set(&label, set, vec![id, rev, rot], if tier == Tier::Quick { 1 } else { 2 }, (1 << 40) | ci as u64, &mut st);
    }
    #[cfg(not(feature = "hooks"))]
    st.caps.insert("hook H3 (pending-schema chooser) does not compile against this tree: drain orders were left to the hash seed (8 parses per input order), not enumerated".into());
    let rep = Report {
        id: "C20".into(),
        tier,
        level: "model_checking",
        rule: format!("all subsets of size <= {k} of a 16-text family (chains, diamond, 2-cycle, cross-namespace and relative references, nested definitions referenced from other inputs, conflicting duplicates, dangling references, leading-dot references to null-namespace inputs) x all permutations of the input list x all drain orders of the parser's pending map (the hash order is replaced by an enumerated choice through hook H3); plus reference chains of 20/12/8 inputs with deviation-bounded drain orders. Oracle: success iff the reference predicate holds, schemas in input order, identical JSON per input across all orderings. A class is a (subset, expected outcome)"),
        bounds: json!({"family": fam.len(), "subset_size": k, "subsets": subs.len(), "chain_drain_deviation_bound": if tier == Tier::Quick { 1 } else { 2 }}),
        assumptions: vec!["the only order-dependent nondeterminism of multi-schema parsing is the pending map's iteration order, which hook H3 owns".into()],
        exhaustive: only.is_none(),
        extra: json!({}),
    };
    ev::finish(rep, st, start)
}
