#!/bin/bash
# verify_seed.sh <ID> <variant>   e.g. C03 a
# Confirms in the scratch worktree /tmp/wt/<ID>: patch applies, suite passes with it, demo fails with it, demo passes without it.
id=$1; x=$2; wt=/tmp/wt/$id; sd=$wt/SEEDED/$x
cd $wt || exit 2
export CARGO_NET_OFFLINE=true
git checkout -q -- . ; rm -f avro/tests/demo_seeded.rs
git apply --check $sd/patch.diff || { echo "PATCH-DOES-NOT-APPLY"; exit 1; }
git apply $sd/patch.diff
suite=$(cargo test --workspace --offline -j 8 2>&1 | grep -E "^test result" | awk '{p+=$4; f+=$6} END {print p" passed "f" failed"}')
cp $sd/demo.rs avro/tests/demo_seeded.rs
with=$(cargo test -p apache-avro --all-features --offline -j 8 --test demo_seeded 2>&1 | grep -E "^test result|^error" | head -3 | tr '\n' ' ')
git checkout -q -- .
without=$(cargo test -p apache-avro --all-features --offline -j 8 --test demo_seeded 2>&1 | grep -E "^test result|^error" | head -3 | tr '\n' ' ')
rm -f avro/tests/demo_seeded.rs
echo "suite_with_change: $suite"
echo "demo_with_change: $with"
echo "demo_without_change: $without"
