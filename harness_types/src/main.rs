//! C16 / C17 over a generated corpus of Rust types (engine E5). The corpus (src/generated.rs) is
//! produced by ref/typegen.py and compiled against the *current* derive macro.

#[path = "../../harness/src/ast.rs"]
mod ast;
#[path = "../../harness/src/ev.rs"]
mod ev;
#[path = "../../harness/src/refbin.rs"]
mod refbin;
#[path = "../../harness/src/refresolve.rs"]
mod refresolve;
#[path = "../../harness/src/sem.rs"]
mod sem;
#[path = "../../harness/src/val.rs"]
mod val;
#[path = "../../harness/src/wf.rs"]
mod wf;

mod generated;

use apache_avro::reader::datum::GenericDatumReader;
use apache_avro::types::Value;
use apache_avro::writer::datum::GenericDatumWriter;
use apache_avro::{AvroSchema, Reader, Schema, Writer};
use ev::{guarded, hex, Report, Stats, Tier};
use serde::de::DeserializeOwned;
use serde::Serialize;
use serde_json::{json, Value as J};
use std::fmt::Debug;
use std::time::Instant;

/// A conforming `Read` that hands out one byte per call.
struct OneByte<'a> {
    data: &'a [u8],
    pos: usize,
}

impl std::io::Read for OneByte<'_> {
    fn read(&mut self, buf: &mut [u8]) -> std::io::Result<usize> {
        let n = buf.len().min(1).min(self.data.len() - self.pos);
        buf[..n].copy_from_slice(&self.data[self.pos..self.pos + n]);
        self.pos += n;
        Ok(n)
    }
}

pub trait Enumerate: Sized {
    fn enumerate() -> Vec<Self>;
}

pub struct St {
    pub c16: Stats,
    pub c17: Stats,
    pub n: u64,
}

const BLOCK_SIZES: [Option<usize>; 5] = [None, Some(0), Some(1), Some(16), Some(1 << 20)];

fn has_multi_map(v: &Value) -> bool {
    match v {
        Value::Map(m) => m.len() >= 2 || m.values().any(has_multi_map),
        Value::Array(a) => a.iter().any(has_multi_map),
        Value::Record(f) => f.iter().any(|(_, x)| has_multi_map(x)),
        Value::Union(_, b) => has_multi_map(b),
        _ => false,
    }
}

fn has_collection(v: &Value) -> bool {
    match v {
        Value::Map(_) | Value::Array(_) => true,
        Value::Record(f) => f.iter().any(|(_, x)| has_collection(x)),
        Value::Union(_, b) => has_collection(b),
        _ => false,
    }
}

/// C16 oracle for one value under one schema. Err((clause, detail)).
fn c16_value<T>(schema: &Schema, x: &T, simple: bool, transitions: &mut u64) -> Result<(), (String, String)>
where
    T: Serialize + DeserializeOwned + PartialEq + Debug,
{
    let reader = GenericDatumReader::builder(schema).build().map_err(|e| ("reader-build".to_string(), e.to_string()))?;
    let mut first: Option<Value> = None;
    for tbs in BLOCK_SIZES {
        *transitions += 3;
        let w = GenericDatumWriter::builder(schema).maybe_target_block_size(tbs).build().map_err(|e| ("writer-build".to_string(), e.to_string()))?;
        let mut b = vec![];
        let n = w.write_ser(&mut b, x).map_err(|e| ("write_ser-failed".to_string(), format!("target_block_size {tbs:?}: {e}")))?;
        if n != b.len() {
            return Err(("byte-count".into(), format!("target_block_size {tbs:?}: write_ser returned {n} but emitted {} bytes ({})", b.len(), hex(&b))));
        }
        // schema-aware deserializer gives the value back and consumes exactly
        let mut cur: &[u8] = &b;
        let back: T = reader.read_deser(&mut cur).map_err(|e| ("read_deser-failed".to_string(), format!("target_block_size {tbs:?}: {e} | bytes {}", hex(&b))))?;
        if !cur.is_empty() || back != *x {
            return Err(("read_deser-differs".into(), format!("target_block_size {tbs:?}: got {back:?} with {} bytes left | bytes {}", cur.len(), hex(&b))));
        }
        // the same bytes from a source that delivers one byte per read (a pipe, a socket)
        if tbs.is_none() {
            let mut src = OneByte { data: &b, pos: 0 };
            let back: T = reader.read_deser(&mut src).map_err(|e| ("read_deser-failed".to_string(), format!("source delivering one byte per read: {e} | bytes {}", hex(&b))))?;
            if src.pos != b.len() || back != *x {
                return Err(("read_deser-differs".into(), format!("source delivering one byte per read: got {back:?} after {} of {} bytes | bytes {}", src.pos, b.len(), hex(&b))));
            }
        }
        // generic decoder accepts the bytes as exactly one conforming datum
        let mut cur: &[u8] = &b;
        let gv = reader.read_value(&mut cur).map_err(|e| ("generic-decoder-rejects".to_string(), format!("target_block_size {tbs:?}: {e} | bytes {}", hex(&b))))?;
        if !cur.is_empty() {
            return Err(("generic-decoder-leaves-bytes".into(), format!("target_block_size {tbs:?}: {} bytes left | bytes {}", cur.len(), hex(&b))));
        }
        if !gv.validate(schema) {
            return Err(("generic-value-does-not-validate".into(), format!("target_block_size {tbs:?}: {gv:?}")));
        }
        // all block-size settings denote the same generic value
        match &first {
            None => first = Some(gv.clone()),
            Some(f) => {
                if *f != gv {
                    return Err(("block-size-changes-value".into(), format!("target_block_size {tbs:?}: {gv:?} vs {f:?}")));
                }
            }
        }
        if simple {
            *transitions += 2;
            let via_value = apache_avro::to_value(x).and_then(|v| v.resolve(schema)).map_err(|e| ("to_value-resolve-failed".to_string(), e.to_string()))?;
            let wb = GenericDatumWriter::builder(schema).build().and_then(|w| w.write_value_to_vec(via_value.clone())).map_err(|e| ("generic-encode-failed".to_string(), e.to_string()))?;
            let same_bytes = wb == b;
            let comparable = tbs.is_none() && !has_multi_map(&gv) || !has_collection(&gv);
            if comparable && !same_bytes {
                return Err(("bytes-differ-from-generic-path".into(), format!("target_block_size {tbs:?}: serde {} vs generic {}", hex(&b), hex(&wb))));
            }
            if via_value != gv {
                return Err(("generic-path-denotes-other-value".into(), format!("to_value+resolve gives {via_value:?}, the bytes decode to {gv:?}")));
            }
            let from: T = apache_avro::from_value(&gv).map_err(|e| ("from_value-failed".to_string(), format!("{e} on {gv:?}")))?;
            if from != *x {
                return Err(("from_value-differs".into(), format!("{from:?} vs {x:?}")));
            }
        }
    }
    Ok(())
}

/// Recorded deviations, by input class (the generated type's attribute combination).
fn deviation(type_name: &str, clause: &str, detail: &str) -> Option<&'static str> {
    // rall5 = rename_all "kebab-case", rall7 = "SCREAMING-KEBAB-CASE"
    let kebab = type_name.contains("rall5") || type_name.contains("rall7");
    if kebab && clause == "derived-schema-ill-formed" && detail.contains("does not match the grammar") && detail.contains('-') {
        return Some("D-C17-kebab-case-rename-rules-yield-names-outside-the-avro-grammar");
    }
    // consequence: the container header's schema text is rejected when the file is opened
    if kebab && clause == "container-open" && (detail.contains("Invalid field name") || detail.contains("Invalid enum symbol")) && detail.contains('-') {
        return Some("D-C17-kebab-case-rename-rules-yield-names-outside-the-avro-grammar");
    }
    // #[avro(repr = "bare_union")] + #[serde(untagged)] + struct variants: serde hands an untagged struct
    // variant over as a struct named after the ENUM, and the writer looks for a record of that name among
    // the union's branches, which are named after the variants
    if type_name.contains("bare_untagged_struct") && matches!(clause, "write_ser-failed" | "container-append_ser-failed") && detail.contains(&format!("Expected Schema::Record(name: {type_name}) in variants")) {
        return Some("D-C17-untagged-bare-union-struct-variants-cannot-be-written");
    }
    None
}

fn record<T: Debug>(st: &mut Stats, ord: u64, prop: &str, name: &str, x: Option<&T>, r: Result<(), (String, String)>, ok_class: String) {
    st.states += 1;
    st.evaluations += 1;
    match r {
        Ok(()) => {
            st.outcome("ok");
            st.class(ok_class);
            st.sample(|| json!({"type": name, "value": x.map(|v| ev::trunc(&format!("{v:?}"), 200))}));
        }
        Err((clause, detail)) if deviation(name, &clause, &detail).is_some() => {
            let dev = deviation(name, &clause, &detail).unwrap();
            st.outcome("known-deviation");
            st.deviation(dev, || json!({"type": name, "clause": clause, "detail": ev::trunc(&detail, 600)}));
        }
        Err((clause, detail)) => {
            st.outcome(&format!("violation:{clause}"));
            st.violate(ord, &format!("{prop} {clause}"), json!({"type": name, "value": x.map(|v| ev::trunc(&format!("{v:?}"), 300)), "detail": ev::trunc(&detail, 900)}), json!({"type": name}));
        }
    }
}

/// A derived type: C17 (the schema itself) and C16 (bytes) oracles.
pub fn check_type<T>(name: &str, simple: bool, _schema_override: Option<&str>, st: &mut St)
where
    T: AvroSchema + apache_avro::AvroSchemaComponent + Serialize + DeserializeOwned + PartialEq + Debug + Clone + Enumerate,
{
    st.n += 1;
    let base = st.n << 20;
    // ---- C17: schema level
    let schema_checks = guarded(|| -> Result<Schema, (String, String)> {
        let schema = T::get_schema();
        let j = serde_json::to_value(&schema).map_err(|e| ("schema-serialise".to_string(), e.to_string()))?;
        if let wf::Wf::No(reason) = wf::wellformed(&j) {
            return Err(("derived-schema-ill-formed".into(), format!("{reason}: {j}")));
        }
        let text = serde_json::to_string(&schema).map_err(|e| ("schema-serialise".to_string(), e.to_string()))?;
        let again = Schema::parse_str(&text).map_err(|e| ("derived-schema-does-not-reparse".to_string(), format!("{e}: {text}")))?;
        if again != schema {
            return Err(("derived-schema-json-round-trip".into(), text));
        }
        let j2 = serde_json::to_value(&again).map_err(|e| ("schema-serialise".to_string(), e.to_string()))?;
        if let Some(d) = sem::first_diff(&sem::sem(&j, None), &sem::sem(&j2, None), String::new()) {
            return Err(("derived-schema-json-round-trip".into(), d));
        }
        let second = T::get_schema();
        if second != schema || serde_json::to_string(&second).ok() != Some(text.clone()) {
            return Err(("derived-schema-differs-between-calls".into(), text));
        }
        // nested inside Vec<T> / Option<T> the same definition appears
        let in_vec = serde_json::to_value(<Vec<T>>::get_schema()).map_err(|e| ("schema-serialise".to_string(), e.to_string()))?;
        if in_vec["items"] != j {
            return Err(("derived-schema-differs-when-nested".into(), format!("{} vs {}", in_vec["items"], j)));
        }
        Ok(schema)
    });
    let schema = match schema_checks {
        Ok(Ok(s)) => {
            record::<T>(&mut st.c17, base, "C17", name, None, Ok(()), format!("schema|{name}"));
            s
        }
        Ok(Err(e)) => {
            let known = deviation(name, &e.0, &e.1).is_some();
            record::<T>(&mut st.c17, base, "C17", name, None, Err(e), String::new());
            if !known {
                return;
            }
            // a recorded deviation of the schema's form: the values are still checked under it
            T::get_schema()
        }
        Err(p) => {
            record::<T>(&mut st.c17, base, "C17", name, None, Err(("panic".into(), p)), String::new());
            return;
        }
    };
    let values = T::enumerate();
    // ---- per value: C17 (serialises, round-trips) and C16 (byte-level agreement)
    for (i, x) in values.iter().enumerate() {
        let ord = base | (i as u64 + 1);
        let mut tr = 0;
        let r = guarded(|| c16_value(&schema, x, simple, &mut tr));
        let r = match r {
            Ok(r) => r,
            Err(p) => Err(("panic".to_string(), p)),
        };
        st.c16.transitions += tr;
        st.c17.transitions += 2;
        // C17 needs: serialises without error and deserialises to an equal value
        let r17 = match &r {
            Err((c, d)) if matches!(c.as_str(), "write_ser-failed" | "read_deser-failed" | "read_deser-differs" | "panic") => Err((c.clone(), d.clone())),
            _ => Ok(()),
        };
        record(&mut st.c17, ord, "C17", name, Some(x), r17, format!("value|{name}|{i}"));
        match &r {
            // the derived schema does not fit the type's serde representation (a recorded C17 finding): the
            // serde path has nothing to agree with, no C16 verdict
            Err((c, d)) if deviation(name, c, d).is_some() => st.c16.outcome("derived-schema-does-not-fit-the-type(C17 finding, no C16 verdict)"),
            _ => record(&mut st.c16, ord, "C16", name, Some(x), r, format!("{name}|{i}")),
        }
    }
    // ---- C17: through a container file
    let r = guarded(|| -> Result<(), (String, String)> {
        let mut w = Writer::new(&schema, Vec::new()).map_err(|e| ("container-writer".to_string(), e.to_string()))?;
        for x in &values {
            w.append_ser(x).map_err(|e| ("container-append_ser-failed".to_string(), format!("{e} on {x:?}")))?;
        }
        let bytes = w.into_inner().map_err(|e| ("container-finish".to_string(), e.to_string()))?;
        let reader = Reader::new(&bytes[..]).map_err(|e| ("container-open".to_string(), e.to_string()))?;
        let got: Vec<T> = reader.into_deser_iter::<T>().collect::<Result<_, _>>().map_err(|e| ("container-read-failed".to_string(), e.to_string()))?;
        if got != values {
            return Err(("container-round-trip-differs".into(), format!("{got:?} vs {values:?}")));
        }
        Ok(())
    });
    let r = match r {
        Ok(r) => r,
        Err(p) => Err(("panic".to_string(), p)),
    };
    st.c17.transitions += values.len() as u64 * 2;
    record::<T>(&mut st.c17, base | 0xfffff, "C17", name, None, r, format!("container|{name}"));
}

/// A plain serde type against a hand-written schema (C16 only).
pub fn check_with_schema<T>(name: &str, schema_text: &str, st: &mut St)
where
    T: Serialize + DeserializeOwned + PartialEq + Debug + Clone + Enumerate,
{
    st.n += 1;
    let base = st.n << 20;
    let schema = match Schema::parse_str(schema_text) {
        Ok(s) => s,
        Err(e) => ev::machinery(&format!("hand-written schema does not parse: {e}")),
    };
    for (i, x) in T::enumerate().iter().enumerate() {
        let mut tr = 0;
        let r = guarded(|| c16_value(&schema, x, true, &mut tr));
        let r = match r {
            Ok(r) => r,
            Err(p) => Err(("panic".to_string(), p)),
        };
        st.c16.transitions += tr;
        record(&mut st.c16, base | (i as u64 + 1), "C16", name, Some(x), r, format!("{name}|{i}"));
    }
}

fn main() {
    let args: Vec<String> = std::env::args().collect();
    if args.len() < 3 {
        eprintln!("usage: vtypes <C16|C17> <quick|thorough>");
        std::process::exit(2);
    }
    let id = args[1].clone();
    let tier = if args[2] == "thorough" { Tier::Thorough } else { Tier::Quick };
    ev::quiet_panics();
    let start = Instant::now();
    let mut st = St { c16: Stats::default(), c17: Stats::default(), n: 0 };
    generated::run_all(&mut st);
    let types = st.n;
    let (stats, rule) = if id == "C16" {
        (st.c16, "for every type of the generated corpus (every field type of the alphabet in 1- and 2-field structs, attribute combinations, every enum representation, recursive and generic types, all 24 serde field orders of a 4-field hand-written schema, zero-width sequence items) and every enumerated value, for every target_block_size in {None, 0, 1, 16, 2^20}: write_ser returns the emitted byte count; read_deser gives the value back and consumes exactly; the generic decoder accepts the bytes as exactly one validating datum; all block sizes denote the same value; for the simple subset to_value+resolve+encode gives the same bytes (up to block partitioning) and from_value recovers the value. A class is a (type, value)".to_string())
    } else {
        (st.c17, "for every derived type of the generated corpus: the derived schema is well formed (reference judgement), survives the JSON round trip (equal schema and equal semantic normal form), is identical on a second call and when nested in Vec<T>; every enumerated value serialises under it and deserialises to an equal value, also through Writer::append_ser -> Reader -> into_deser_iter. A class is a (type, value) or a type's schema / container check".to_string())
    };
    let rep = Report {
        id: id.clone(),
        tier,
        level: "model_checking",
        rule,
        bounds: json!({"types": types, "values_per_type_cap": 48, "target_block_sizes": ["None", 0, 1, 16, 1048576]}),
        assumptions: vec!["the corpus is the bounded grammar of ref/typegen.py; definitions with more than 3 fields / attribute triples are outside it".into(), "a corpus that does not compile against the current derive macro is reported by the build step as a C17 violation".into()],
        exhaustive: true,
        extra: json!({}),
    };
    std::process::exit(ev::finish(rep, stats, start));
}
