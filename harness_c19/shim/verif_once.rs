//! Scheduling shim for the process-wide settings (inserted by tools/instrument_c19.py; not part
//! of apache/avro-rs). It has the API subset of `std::sync::OnceLock` the crate uses and wraps a
//! real `std::sync::OnceLock`.
//!
//! * normal mode: every method delegates to the inner std cell;
//! * sched mode (switched on by the C19 harness): for *setting* cells (usize, bool, boxed trait
//!   objects) every method first yields to the shuttle scheduler and then acts atomically on an
//!   epoch-stamped overlay slot, so each method is one atomic step and every step boundary is a
//!   scheduling point. `new_epoch()` empties all overlay slots between executions. Caches
//!   (regexes, tables) always delegate to std.

use std::sync::atomic::{AtomicBool, AtomicU64, Ordering};
use std::sync::Mutex;

static SCHED: AtomicBool = AtomicBool::new(false);
static EPOCH: AtomicU64 = AtomicU64::new(1);
static IN_STEP: AtomicBool = AtomicBool::new(false);
static STEPS: AtomicU64 = AtomicU64::new(0);
static FOCUS: Mutex<&'static str> = Mutex::new("");

/// Only cells whose type name contains `focus` are scheduling points ("" = every setting cell).
pub fn set_focus(focus: &'static str) {
    *FOCUS.lock().unwrap_or_else(|e| e.into_inner()) = focus;
}

pub fn set_sched_mode(on: bool) {
    SCHED.store(on, Ordering::SeqCst);
}

/// Forget every overlay value (start of a new execution).
pub fn new_epoch() {
    EPOCH.fetch_add(1, Ordering::SeqCst);
}

/// Number of scheduled shim operations so far.
pub fn steps() -> u64 {
    STEPS.load(Ordering::SeqCst)
}

pub struct OnceLock<T: 'static> {
    inner: std::sync::OnceLock<T>,
    overlay: Mutex<Option<(u64, &'static T)>>,
}

impl<T: 'static> OnceLock<T> {
    pub const fn new() -> Self {
        OnceLock { inner: std::sync::OnceLock::new(), overlay: Mutex::new(None) }
    }

    fn scheduled() -> bool {
        if !SCHED.load(Ordering::SeqCst) {
            return false;
        }
        let n = std::any::type_name::<T>();
        let setting = n == "usize" || n == "bool" || n.starts_with("alloc::boxed::Box<dyn ");
        let focus = *FOCUS.lock().unwrap_or_else(|e| e.into_inner());
        setting && (focus.is_empty() || n.contains(focus))
    }

    fn step<R>(&self, f: impl FnOnce(&mut Option<(u64, &'static T)>) -> R) -> R {
        if IN_STEP.load(Ordering::SeqCst) {
            // a scheduling point inside an init closure would break atomicity of the step
            eprintln!("MACHINERY-FAILURE: re-entrant settings operation inside an initialiser");
            std::process::exit(2);
        }
        shuttle::thread::yield_now();
        STEPS.fetch_add(1, Ordering::SeqCst);
        IN_STEP.store(true, Ordering::SeqCst);
        let mut g = self.overlay.lock().unwrap_or_else(|e| e.into_inner());
        let epoch = EPOCH.load(Ordering::SeqCst);
        if g.is_some_and(|(e, _)| e != epoch) {
            *g = None;
        }
        let r = f(&mut g);
        IN_STEP.store(false, Ordering::SeqCst);
        r
    }

    pub fn get(&self) -> Option<&T> {
        if !Self::scheduled() {
            return self.inner.get();
        }
        self.step(|slot| slot.map(|(_, v)| v))
    }

    pub fn set(&self, value: T) -> Result<(), T> {
        if !Self::scheduled() {
            return self.inner.set(value);
        }
        let epoch = EPOCH.load(Ordering::SeqCst);
        self.step(|slot| {
            if slot.is_some() {
                Err(value)
            } else {
                *slot = Some((epoch, Box::leak(Box::new(value))));
                Ok(())
            }
        })
    }

    pub fn get_or_init<F: FnOnce() -> T>(&self, f: F) -> &T {
        if !Self::scheduled() {
            return self.inner.get_or_init(f);
        }
        let epoch = EPOCH.load(Ordering::SeqCst);
        self.step(|slot| match slot {
            Some((_, v)) => *v,
            None => {
                let v: &'static T = Box::leak(Box::new(f()));
                *slot = Some((epoch, v));
                v
            }
        })
    }
}

impl<T: 'static> Default for OnceLock<T> {
    fn default() -> Self {
        Self::new()
    }
}
