//! Independent implementation of the Avro binary encoding, written from the specification.
//! Encoder with explicit layout choice (block partition, signed counts, map entry order) and a
//! strict decoder. Never calls the library.

use crate::ast::{Env, Lt, S};
use crate::val::{sign_extend, uuid_canonical_text, V};
use num_bigint::BigInt;

pub fn zigzag(n: i64) -> u64 {
    ((n << 1) ^ (n >> 63)) as u64
}

pub fn put_varint(mut z: u64, out: &mut Vec<u8>) {
    loop {
        let b = (z & 0x7f) as u8;
        z >>= 7;
        if z == 0 {
            out.push(b);
            return;
        }
        out.push(b | 0x80);
    }
}

pub fn put_long(n: i64, out: &mut Vec<u8>) {
    put_varint(zigzag(n), out)
}

pub fn long_bytes(n: i64) -> Vec<u8> {
    let mut v = vec![];
    put_long(n, &mut v);
    v
}

fn put_bytes(b: &[u8], out: &mut Vec<u8>) {
    put_long(b.len() as i64, out);
    out.extend_from_slice(b);
}

/// Encode a scalar (non-container) value. Containers are handled by the layout machinery.
fn encode_scalar(v: &V, s: &S, out: &mut Vec<u8>) {
    match (v, s) {
        (V::Null, _) => {}
        (V::Bool(b), _) => out.push(*b as u8),
        (V::Int(i), _) => put_long(*i as i64, out),
        (V::Long(i), _) => put_long(*i, out),
        (V::Float(b), _) => out.extend_from_slice(&b.to_le_bytes()),
        (V::Double(b), _) => out.extend_from_slice(&b.to_le_bytes()),
        (V::Bytes(b), _) => put_bytes(b, out),
        (V::Str(x), _) => put_bytes(x.as_bytes(), out),
        (V::Fixed(b), _) => out.extend_from_slice(b),
        (V::Enum(i), _) => put_long(*i as i64, out),
        (V::Decimal(n), S::Logical(_, base)) => match &**base {
            S::Fixed { size, .. } => out.extend_from_slice(&sign_extend(n, *size)),
            _ => put_bytes(&n.to_signed_bytes_be(), out),
        },
        (V::BigDec(n, scale), _) => {
            let mut inner = vec![];
            put_bytes(&n.to_signed_bytes_be(), &mut inner);
            put_long(*scale, &mut inner);
            put_bytes(&inner, out);
        }
        (V::Uuid(b), S::Logical(_, base)) => match &**base {
            S::String => put_bytes(uuid_canonical_text(b).as_bytes(), out),
            S::Bytes => put_bytes(b, out),
            _ => out.extend_from_slice(b),
        },
        (V::Duration(m, d, ms), _) => {
            out.extend_from_slice(&m.to_le_bytes());
            out.extend_from_slice(&d.to_le_bytes());
            out.extend_from_slice(&ms.to_le_bytes());
        }
        (v, s) => panic!("refbin: cannot encode {v:?} as {s:?}"),
    }
}

/// The canonical layout: one block with a positive count per non-empty array/map, entries in the
/// order given.
pub fn encode(v: &V, s: &S, env: &Env) -> Vec<u8> {
    let mut out = vec![];
    encode_into(v, s, env, &mut out);
    out
}

fn encode_into(v: &V, s: &S, env: &Env, out: &mut Vec<u8>) {
    let s = s.deref(env);
    match (v, s) {
        (V::Union(i, b), S::Union(br)) => {
            put_long(*i as i64, out);
            encode_into(b, &br[*i], env, out);
        }
        (V::Array(a), S::Array(it)) => {
            if !a.is_empty() {
                put_long(a.len() as i64, out);
                for x in a {
                    encode_into(x, it, env, out);
                }
            }
            out.push(0);
        }
        (V::Map(m), S::Map(vt)) => {
            if !m.is_empty() {
                put_long(m.len() as i64, out);
                for (k, x) in m {
                    put_bytes(k.as_bytes(), out);
                    encode_into(x, vt, env, out);
                }
            }
            out.push(0);
        }
        (V::Record(vals), S::Record { fields, .. }) => {
            for (f, x) in fields.iter().zip(vals) {
                encode_into(x, &f.ty, env, out);
            }
        }
        _ => encode_scalar(v, s, out),
    }
}

/// Cartesian concatenation with a cap. Returns false in `complete` if the cap cut the product.
fn product(prefixes: Vec<Vec<u8>>, options: &[Vec<u8>], cap: usize, complete: &mut bool) -> Vec<Vec<u8>> {
    let mut out = Vec::with_capacity((prefixes.len() * options.len()).min(cap));
    for p in &prefixes {
        for o in options {
            if out.len() >= cap {
                *complete = false;
                return out;
            }
            let mut x = p.clone();
            x.extend_from_slice(o);
            out.push(x);
        }
    }
    out
}

fn permutations(n: usize) -> Vec<Vec<usize>> {
    fn rec(cur: &mut Vec<usize>, used: &mut Vec<bool>, n: usize, out: &mut Vec<Vec<usize>>) {
        if cur.len() == n {
            out.push(cur.clone());
            return;
        }
        for i in 0..n {
            if !used[i] {
                used[i] = true;
                cur.push(i);
                rec(cur, used, n, out);
                cur.pop();
                used[i] = false;
            }
        }
    }
    let mut out = vec![];
    rec(&mut vec![], &mut vec![false; n], n, &mut out);
    out
}

/// Every spec-legal layout of `v`: all block partitions of each array/map, each block with a
/// positive count or a negative count followed by its byte size, all map entry orders.
/// `complete` is cleared if `cap` truncated the enumeration.
pub fn layouts(v: &V, s: &S, env: &Env, cap: usize, complete: &mut bool) -> Vec<Vec<u8>> {
    layouts_n(v, s, env, cap, complete, 0)
}

/// `nest` = number of enclosing arrays/maps. The outermost collection gets every partition, sign
/// and order; a collection nested inside another one gets the representative set of
/// `long_block_layouts` (a stated reduction that keeps the product finite and small).
fn layouts_n(v: &V, s: &S, env: &Env, cap: usize, complete: &mut bool, nest: usize) -> Vec<Vec<u8>> {
    let s = s.deref(env);
    match (v, s) {
        (V::Union(i, b), S::Union(br)) => {
            let inner = layouts_n(b, &br[*i], env, cap, complete, nest);
            product(vec![long_bytes(*i as i64)], &inner, cap, complete)
        }
        (V::Record(vals), S::Record { fields, .. }) => {
            let mut acc = vec![vec![]];
            for (f, x) in fields.iter().zip(vals) {
                let opts = layouts_n(x, &f.ty, env, cap, complete, nest);
                acc = product(acc, &opts, cap, complete);
            }
            acc
        }
        (V::Array(a), S::Array(it)) => {
            let items: Vec<Vec<Vec<u8>>> = a.iter().map(|x| layouts_n(x, it, env, cap, complete, nest + 1)).collect();
            if nest >= 1 && !items.is_empty() {
                let mut l = long_block_layouts(&items);
                l.sort();
                l.dedup();
                return l;
            }
            block_layouts(&items, cap, complete)
        }
        (V::Map(m), S::Map(vt)) => {
            let entries: Vec<Vec<Vec<u8>>> = m
                .iter()
                .map(|(k, x)| {
                    let mut key = vec![];
                    put_bytes(k.as_bytes(), &mut key);
                    product(vec![key], &layouts_n(x, vt, env, cap, complete, nest + 1), cap, complete)
                })
                .collect();
            if nest >= 1 && !entries.is_empty() {
                let mut l = long_block_layouts(&entries);
                let rev: Vec<Vec<Vec<u8>>> = entries.iter().rev().cloned().collect();
                l.extend(long_block_layouts(&rev));
                l.sort();
                l.dedup();
                return l;
            }
            let mut out = vec![];
            let perms = if entries.len() <= 4 { permutations(entries.len()) } else { vec![(0..entries.len()).collect(), (0..entries.len()).rev().collect()] };
            for perm in perms {
                let permuted: Vec<Vec<Vec<u8>>> = perm.iter().map(|&i| entries[i].clone()).collect();
                out.extend(block_layouts(&permuted, cap, complete));
                if out.len() >= cap {
                    *complete = false;
                    out.truncate(cap);
                    break;
                }
            }
            out
        }
        _ => {
            let mut out = vec![];
            encode_scalar(v, s, &mut out);
            vec![out]
        }
    }
}

/// items[i] = the alternative encodings of item i. Returns all block partitions × sign choices.
fn block_layouts(items: &[Vec<Vec<u8>>], cap: usize, complete: &mut bool) -> Vec<Vec<u8>> {
    let n = items.len();
    if n == 0 {
        return vec![vec![0]];
    }
    if n > 6 {
        return long_block_layouts(items);
    }
    let mut out = vec![];
    // partition mask: bit i set = a block boundary after item i (i < n-1)
    // exhaustive for n <= 6; longer collections get four representative partitions
    // (one block, one item per block, split in the middle, first item alone)
    let masks: Vec<u128> = if n <= 6 {
        (0..(1u128 << (n - 1))).collect()
    } else {
        vec![0, (1u128 << (n - 1)) - 1, 1u128 << (n / 2), 1]
    };
    for mask in masks {
        let mut blocks: Vec<(usize, usize)> = vec![];
        let mut start = 0;
        for i in 0..n {
            if i == n - 1 || mask & (1u128 << i) != 0 {
                blocks.push((start, i + 1));
                start = i + 1;
            }
        }
        // per block: the alternatives of its body (product of item alternatives)
        let mut acc: Vec<Vec<u8>> = vec![vec![]];
        for &(a, b) in &blocks {
            let mut bodies: Vec<Vec<u8>> = vec![vec![]];
            for it in &items[a..b] {
                bodies = product(bodies, it, cap, complete);
            }
            let count = (b - a) as i64;
            let mut opts = vec![];
            for body in &bodies {
                let mut pos = long_bytes(count);
                pos.extend_from_slice(body);
                opts.push(pos);
                let mut neg = long_bytes(-count);
                neg.extend_from_slice(&long_bytes(body.len() as i64));
                neg.extend_from_slice(body);
                opts.push(neg);
            }
            acc = product(acc, &opts, cap, complete);
        }
        for mut x in acc {
            x.push(0);
            out.push(x);
            if out.len() >= cap {
                *complete = false;
                return out;
            }
        }
    }
    out
}

/// Collections longer than 6 items: four representative partitions (one block, one item per block,
/// split in the middle, first item alone), each with all-positive and all-negative counts; items
/// use their first alternative. A stated reduction, not a cap.
fn long_block_layouts(items: &[Vec<Vec<u8>>]) -> Vec<Vec<u8>> {
    let n = items.len();
    let mut cuts: Vec<Vec<usize>> = vec![vec![n], (1..=n).collect(), vec![n / 2, n], vec![1, n]];
    for c in cuts.iter_mut() {
        // no empty blocks: block ends must be strictly increasing and positive
        c.retain(|&e| e > 0);
        c.dedup();
    }
    cuts.sort();
    cuts.dedup();
    let mut out = vec![];
    for ends in cuts {
        for negative in [false, true] {
            let mut x = vec![];
            let mut start = 0;
            for &end in &ends {
                let body: Vec<u8> = items[start..end].iter().flat_map(|alts| alts[0].clone()).collect();
                let count = (end - start) as i64;
                if negative {
                    x.extend(long_bytes(-count));
                    x.extend(long_bytes(body.len() as i64));
                } else {
                    x.extend(long_bytes(count));
                }
                x.extend(body);
                start = end;
            }
            x.push(0);
            out.push(x);
        }
    }
    out
}

// ------------------------------------------------------------------------------------------
// strict decoder

#[derive(Debug, Clone, PartialEq)]
pub enum DecErr {
    Eof,
    Invalid(String),
}

pub struct Cur<'a> {
    pub b: &'a [u8],
    pub pos: usize,
    /// `Some` = lenient mode: reproduce the library's recorded deviations (known findings) exactly
    /// and note which ones were exercised. `None` = strict specification behaviour.
    pub dev: Option<Vec<&'static str>>,
}

impl<'a> Cur<'a> {
    pub fn new(b: &'a [u8]) -> Self {
        Cur { b, pos: 0, dev: None }
    }
    pub fn lenient(b: &'a [u8]) -> Self {
        Cur { b, pos: 0, dev: Some(vec![]) }
    }
    fn note(&mut self, name: &'static str) {
        if let Some(d) = &mut self.dev {
            if !d.contains(&name) {
                d.push(name);
            }
        }
    }
    fn byte(&mut self) -> Result<u8, DecErr> {
        let x = *self.b.get(self.pos).ok_or(DecErr::Eof)?;
        self.pos += 1;
        Ok(x)
    }
    fn take(&mut self, n: usize) -> Result<&'a [u8], DecErr> {
        if self.b.len() - self.pos < n {
            return Err(DecErr::Eof);
        }
        let x = &self.b[self.pos..self.pos + n];
        self.pos += n;
        Ok(x)
    }
    pub fn long(&mut self) -> Result<i64, DecErr> {
        let mut z: u64 = 0;
        for j in 0..10 {
            let b = self.byte()?;
            if j == 9 && b > 1 {
                return Err(DecErr::Invalid("varint overflows 64 bits".into()));
            }
            z |= ((b & 0x7f) as u64) << (7 * j);
            if b & 0x80 == 0 {
                return Ok(((z >> 1) as i64) ^ -((z & 1) as i64));
            }
        }
        Err(DecErr::Invalid("varint longer than 10 bytes".into()))
    }
    fn int(&mut self) -> Result<i32, DecErr> {
        let l = self.long()?;
        i32::try_from(l).map_err(|_| DecErr::Invalid(format!("int out of range: {l}")))
    }
    fn len(&mut self) -> Result<usize, DecErr> {
        let l = self.long()?;
        if l < 0 {
            return Err(DecErr::Invalid(format!("negative length {l}")));
        }
        let l = l as usize;
        if self.b.len() - self.pos < l {
            return Err(DecErr::Eof);
        }
        Ok(l)
    }
    fn bytes(&mut self) -> Result<&'a [u8], DecErr> {
        let n = self.len()?;
        self.take(n)
    }
}

pub fn parse_uuid_text(t: &str) -> Option<[u8; 16]> {
    let b = t.as_bytes();
    if b.len() != 36 {
        return None;
    }
    let mut out = [0u8; 16];
    let mut k = 0;
    let mut i = 0;
    while i < 36 {
        if i == 8 || i == 13 || i == 18 || i == 23 {
            if b[i] != b'-' {
                return None;
            }
            i += 1;
            continue;
        }
        let hi = (b[i] as char).to_digit(16)?;
        let lo = (b[i + 1] as char).to_digit(16)?;
        out[k] = (hi * 16 + lo) as u8;
        k += 1;
        i += 2;
    }
    Some(out)
}

/// Strictly decode one datum. Returns the value; `c.pos` is the number of bytes consumed.
pub fn decode(c: &mut Cur, s: &S, env: &Env) -> Result<V, DecErr> {
    decode_d(c, s, env, 0)
}

fn decode_d(c: &mut Cur, s: &S, env: &Env, depth: usize) -> Result<V, DecErr> {
    if depth > 300 {
        return Err(DecErr::Invalid("nesting too deep".into()));
    }
    let s = s.deref(env);
    Ok(match s {
        S::Null => V::Null,
        S::Boolean => {
            if c.dev.is_some() && c.pos >= c.b.len() {
                c.note("D-C06-eof-boolean-null");
                return Ok(V::Null);
            }
            match c.byte()? {
                0 => V::Bool(false),
                1 => V::Bool(true),
                b => return Err(DecErr::Invalid(format!("boolean byte {b}"))),
            }
        }
        S::Int => V::Int(c.int()?),
        S::Long => V::Long(c.long()?),
        S::Float => V::Float(u32::from_le_bytes(c.take(4)?.try_into().unwrap())),
        S::Double => V::Double(u64::from_le_bytes(c.take(8)?.try_into().unwrap())),
        S::Bytes => V::Bytes(c.bytes()?.to_vec()),
        S::String => {
            if c.dev.is_some() {
                // the library reads the length, then completes a short body with Null
                let n = c.long()?;
                if n < 0 {
                    return Err(DecErr::Invalid("negative length".into()));
                }
                if c.b.len() - c.pos < n as usize {
                    c.pos = c.b.len();
                    c.note("D-C06-eof-string-null");
                    return Ok(V::Null);
                }
                let raw = c.take(n as usize)?;
                return Ok(V::Str(String::from_utf8(raw.to_vec()).map_err(|_| DecErr::Invalid("string is not UTF-8".into()))?));
            }
            V::Str(String::from_utf8(c.bytes()?.to_vec()).map_err(|_| DecErr::Invalid("string is not UTF-8".into()))?)
        }
        S::Fixed { size, .. } => V::Fixed(c.take(*size)?.to_vec()),
        S::Enum { symbols, .. } => {
            let i = c.int()?;
            if i < 0 || i as usize >= symbols.len() {
                return Err(DecErr::Invalid(format!("enum index {i} out of range")));
            }
            V::Enum(i as usize)
        }
        S::Union(br) => {
            if c.dev.is_some() && c.pos >= c.b.len() {
                c.note("D-C06-eof-union-null0");
                return Ok(V::Union(0, Box::new(V::Null)));
            }
            let i = c.long()?;
            if i < 0 || i as usize >= br.len() {
                return Err(DecErr::Invalid(format!("union index {i} out of range")));
            }
            V::Union(i as usize, Box::new(decode_d(c, &br[i as usize], env, depth + 1)?))
        }
        S::Array(it) => {
            let mut out = vec![];
            loop {
                let (n, size) = block_header(c)?;
                if n == 0 {
                    break;
                }
                let start = c.pos;
                for _ in 0..n {
                    out.push(decode_d(c, it, env, depth + 1)?);
                    if out.len() > 1 << 20 {
                        return Err(DecErr::Invalid("reference decoder item cap".into()));
                    }
                }
                check_size(size, c.pos - start)?;
            }
            V::Array(out)
        }
        S::Map(vt) => {
            let mut out = vec![];
            loop {
                let (n, size) = block_header(c)?;
                if n == 0 {
                    break;
                }
                let start = c.pos;
                for _ in 0..n {
                    let k = String::from_utf8(c.bytes()?.to_vec()).map_err(|_| DecErr::Invalid("map key is not UTF-8".into()))?;
                    out.push((k, decode_d(c, vt, env, depth + 1)?));
                    if out.len() > 1 << 20 {
                        return Err(DecErr::Invalid("reference decoder item cap".into()));
                    }
                }
                check_size(size, c.pos - start)?;
            }
            V::Map(out)
        }
        S::Record { fields, .. } => {
            let mut out = vec![];
            for f in fields {
                out.push(decode_d(c, &f.ty, env, depth + 1)?);
            }
            V::Record(out)
        }
        S::Logical(lt, base) => match lt {
            Lt::Date | Lt::TimeMillis => V::Int(c.int()?),
            Lt::TimeMicros | Lt::TsMillis | Lt::TsMicros | Lt::TsNanos | Lt::LtsMillis | Lt::LtsMicros | Lt::LtsNanos => V::Long(c.long()?),
            Lt::Decimal { .. } => {
                let raw: &[u8] = match &**base {
                    S::Fixed { size, .. } => c.take(*size)?,
                    _ => c.bytes()?,
                };
                if raw.is_empty() {
                    if c.dev.is_some() {
                        c.note("D-C06-empty-decimal");
                        return Ok(V::Decimal(BigInt::from(0)));
                    }
                    return Err(DecErr::Invalid("zero-length two's-complement integer".into()));
                }
                V::Decimal(BigInt::from_signed_bytes_be(raw))
            }
            Lt::BigDecimal => {
                let raw = c.bytes()?;
                let mut ic = Cur::new(raw);
                let unscaled = ic.bytes().map_err(|_| DecErr::Invalid("big-decimal body".into()))?;
                if unscaled.is_empty() {
                    return Err(DecErr::Invalid("big-decimal: zero-length integer".into()));
                }
                let scale = ic.long().map_err(|_| DecErr::Invalid("big-decimal scale".into()))?;
                if ic.pos != raw.len() {
                    return Err(DecErr::Invalid("big-decimal: trailing bytes".into()));
                }
                V::BigDec(BigInt::from_signed_bytes_be(unscaled), scale)
            }
            Lt::Uuid => match &**base {
                S::String => {
                    let raw = c.bytes()?;
                    let t = std::str::from_utf8(raw).map_err(|_| DecErr::Invalid("uuid text not UTF-8".into()))?;
                    V::Uuid(parse_uuid_text(t).ok_or(DecErr::Invalid(format!("uuid text {t:?}")))?)
                }
                S::Bytes => {
                    let raw = c.bytes()?;
                    V::Uuid(raw.try_into().map_err(|_| DecErr::Invalid("uuid bytes length".into()))?)
                }
                _ => V::Uuid(c.take(16)?.try_into().unwrap()),
            },
            Lt::Duration => {
                let raw = c.take(12)?;
                V::Duration(
                    u32::from_le_bytes(raw[0..4].try_into().unwrap()),
                    u32::from_le_bytes(raw[4..8].try_into().unwrap()),
                    u32::from_le_bytes(raw[8..12].try_into().unwrap()),
                )
            }
        },
        S::Ref(_) => unreachable!(),
    })
}

fn block_header(c: &mut Cur) -> Result<(u64, Option<u64>), DecErr> {
    let n = c.long()?;
    if n == 0 {
        Ok((0, None))
    } else if n < 0 {
        let size = c.long()?;
        if size < 0 {
            return Err(DecErr::Invalid("negative block byte size".into()));
        }
        if n == i64::MIN {
            return Err(DecErr::Invalid("block count overflow".into()));
        }
        Ok(((-n) as u64, Some(size as u64)))
    } else {
        Ok((n as u64, None))
    }
}

fn check_size(size: Option<u64>, actual: usize) -> Result<(), DecErr> {
    match size {
        Some(sz) if sz as usize != actual => Err(DecErr::Invalid(format!("block byte size {sz} but {actual} bytes of items"))),
        _ => Ok(()),
    }
}

/// Decode exactly one datum that must span all of `bytes`.
pub fn decode_all(bytes: &[u8], s: &S, env: &Env) -> Result<V, DecErr> {
    let mut c = Cur::new(bytes);
    let v = decode(&mut c, s, env)?;
    if c.pos != bytes.len() {
        return Err(DecErr::Invalid(format!("{} trailing bytes", bytes.len() - c.pos)));
    }
    Ok(v)
}

/// Self-test against the literal examples of the specification. Panics (machinery failure) on error.
pub fn self_test() {
    // zig-zag table from the spec
    for (n, hex) in [(0i64, vec![0x00u8]), (-1, vec![0x01]), (1, vec![0x02]), (-2, vec![0x03]), (2, vec![0x04]), (-64, vec![0x7f]), (64, vec![0x80, 0x01])] {
        assert_eq!(long_bytes(n), hex, "zig-zag {n}");
        assert_eq!(Cur::new(&hex).long().unwrap(), n);
    }
    let env = Env::new();
    // "foo" -> 06 66 6f 6f
    assert_eq!(encode(&V::Str("foo".into()), &S::String, &env), vec![0x06, 0x66, 0x6f, 0x6f]);
    // record {a: 27, b: "foo"} -> 36 06 66 6f 6f
    let rec = S::Record {
        full: "test".into(),
        aliases: vec![],
        fields: vec![
            crate::ast::F { name: "a".into(), aliases: vec![], ty: S::Long, default: None },
            crate::ast::F { name: "b".into(), aliases: vec![], ty: S::String, default: None },
        ],
    };
    assert_eq!(encode(&V::Record(vec![V::Long(27), V::Str("foo".into())]), &rec, &env), vec![0x36, 0x06, 0x66, 0x6f, 0x6f]);
    // array of longs [3, 27] -> 04 06 36 00
    let arr = S::Array(Box::new(S::Long));
    assert_eq!(encode(&V::Array(vec![V::Long(3), V::Long(27)]), &arr, &env), vec![0x04, 0x06, 0x36, 0x00]);
    // union ["null","string"]: null -> 00 ; "a" -> 02 02 61
    let un = S::Union(vec![S::Null, S::String]);
    assert_eq!(encode(&V::Union(0, Box::new(V::Null)), &un, &env), vec![0x00]);
    assert_eq!(encode(&V::Union(1, Box::new(V::Str("a".into()))), &un, &env), vec![0x02, 0x02, 0x61]);
    // decode . encode over every layout of a nested value
    let s = S::Map(Box::new(arr.clone()));
    let v = V::Map(vec![("a".into(), V::Array(vec![V::Long(1), V::Long(-1)])), ("b".into(), V::Array(vec![]))]);
    let mut complete = true;
    let ls = layouts(&v, &s, &env, 100000, &mut complete);
    assert!(complete && ls.len() > 10);
    for l in &ls {
        let got = decode_all(l, &s, &env).expect("layout decodes");
        assert!(crate::val::veq(&got, &v));
    }
    assert_eq!(parse_uuid_text("67e55044-10b1-426f-9247-bb680e5fe0c8").unwrap()[0], 0x67);
}
