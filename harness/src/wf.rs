//! Reference well-formedness judgement for schema JSON, written from the specification.
//! Three-valued: `Yes` (definitely well formed), `No(reason)` (definitely ill formed),
//! `Unclear` (an optional attribute of an unexpected JSON kind etc. — the specification does not
//! settle it, so no verdict is derived from it).

use crate::ast::{full_name, join, primitive, refparse};
use crate::refresolve::default_value;
use serde_json::{Map, Value as J};
use std::collections::BTreeSet;

#[derive(Debug, Clone, PartialEq)]
pub enum Wf {
    Yes,
    No(String),
    Unclear(String),
}

struct Ck {
    defined: BTreeSet<String>,
    no: Option<String>,
    unclear: Option<String>,
}

fn name_ok(s: &str) -> bool {
    let mut ch = s.chars();
    match ch.next() {
        Some(c) if c.is_ascii_alphabetic() || c == '_' => {}
        _ => return false,
    }
    ch.all(|c| c.is_ascii_alphanumeric() || c == '_')
}

fn dotted_ok(s: &str) -> bool {
    !s.is_empty() && s.split('.').all(name_ok)
}

impl Ck {
    fn no(&mut self, s: impl Into<String>) {
        if self.no.is_none() {
            self.no = Some(s.into());
        }
    }
    fn unclear(&mut self, s: impl Into<String>) {
        if self.unclear.is_none() {
            self.unclear = Some(s.into());
        }
    }

    fn optional_attrs(&mut self, o: &Map<String, J>, named: bool) {
        if let Some(d) = o.get("doc") {
            if !d.is_string() {
                self.unclear("doc is not a string");
            }
        }
        if let Some(a) = o.get("aliases") {
            match a.as_array() {
                Some(a) if a.iter().all(|x| x.as_str().is_some_and(|s| dotted_ok(s.trim_start_matches('.')))) => {}
                _ => self.unclear("aliases is not an array of names"),
            }
        }
        if named {
            if let Some(n) = o.get("namespace") {
                match n.as_str() {
                    Some("") => {}
                    Some(s) if dotted_ok(s) => {}
                    Some(_) => self.no("namespace does not match the name grammar"),
                    None => self.unclear("namespace is not a string"),
                }
            }
        }
        if let Some(l) = o.get("logicalType") {
            if !l.is_string() {
                self.unclear("logicalType is not a string");
            }
            // invalid logical types must be ignored by the spec; parameters of odd kinds are a grey zone
            for k in ["precision", "scale"] {
                if let Some(v) = o.get(k) {
                    if !v.is_u64() {
                        self.unclear("logical type parameter of an unexpected kind");
                    }
                }
            }
        }
    }

    fn schema(&mut self, j: &J, ns: Option<&str>) {
        match j {
            J::String(s) => {
                if primitive(s).is_none() {
                    let full = if s.contains('.') { s.trim_start_matches('.').to_string() } else { join(&ns.map(|x| x.to_string()), s) };
                    if !self.defined.contains(&full) {
                        self.no(format!("reference to undefined name {full}"));
                    }
                }
            }
            J::Array(br) => {
                let mut kinds = BTreeSet::new();
                for b in br {
                    let key = match b {
                        J::Array(_) => {
                            self.no("union immediately contains a union");
                            continue;
                        }
                        J::String(s) if primitive(s).is_some() => s.clone(),
                        J::String(s) => format!("named:{}", if s.contains('.') { s.trim_start_matches('.').to_string() } else { join(&ns.map(|x| x.to_string()), s) }),
                        J::Object(o) => match o.get("type") {
                            Some(J::String(t)) if matches!(t.as_str(), "record" | "error" | "enum" | "fixed") => {
                                let name = o.get("name").and_then(|n| n.as_str()).unwrap_or("");
                                let (n2, simple) = full_name(name, o.get("namespace").and_then(|n| n.as_str()), ns);
                                format!("named:{}", join(&n2, &simple))
                            }
                            Some(J::String(t)) if t == "array" || t == "map" || primitive(t).is_some() => t.clone(),
                            Some(J::String(t)) => format!("named:{}", if t.contains('.') { t.trim_start_matches('.').to_string() } else { join(&ns.map(|x| x.to_string()), t) }),
                            Some(J::Array(_)) => {
                                self.unclear("union branch whose type is itself a union");
                                "?".into()
                            }
                            _ => "?".into(),
                        },
                        _ => {
                            self.no("union branch is not a schema");
                            continue;
                        }
                    };
                    if key != "?" && !kinds.insert(key.clone()) {
                        self.no(format!("union has two branches of kind {key}"));
                    }
                    self.schema(b, ns);
                }
            }
            J::Object(o) => self.object(o, ns),
            _ => self.no("a schema must be a string, an array or an object"),
        }
    }

    fn object(&mut self, o: &Map<String, J>, ns: Option<&str>) {
        let Some(ty) = o.get("type") else {
            self.no("object without type");
            return;
        };
        let t = match ty {
            J::String(t) => t.clone(),
            J::Object(_) | J::Array(_) => {
                // {"type": {...}}: nested schema; other attributes are a grey zone
                if o.len() > 1 {
                    self.unclear("attributes next to a nested type");
                }
                self.schema(ty, ns);
                return;
            }
            _ => {
                self.no("type is not a string, object or array");
                return;
            }
        };
        match t.as_str() {
            "record" | "error" | "enum" | "fixed" => {
                let Some(name) = o.get("name").and_then(|n| n.as_str()) else {
                    self.no("named type without a string name");
                    return;
                };
                let stripped = name.strip_prefix('.').unwrap_or(name);
                if !dotted_ok(stripped) {
                    self.no(format!("name {name:?} does not match the name grammar"));
                    return;
                }
                self.optional_attrs(o, true);
                let (my_ns, simple) = full_name(name, o.get("namespace").and_then(|n| n.as_str()), ns);
                let full = join(&my_ns, &simple);
                if primitive(&full).is_some() {
                    self.no("a primitive type name is redefined");
                }
                if !self.defined.insert(full.clone()) {
                    self.no(format!("full name {full} is defined twice"));
                }
                match t.as_str() {
                    "fixed" => match o.get("size") {
                        Some(J::Number(n)) if n.is_u64() => {}
                        Some(J::Number(n)) if n.is_i64() => self.no("negative fixed size"),
                        Some(_) => self.no("fixed size is not an integer"),
                        None => self.no("fixed without size"),
                    },
                    "enum" => {
                        let Some(syms) = o.get("symbols").and_then(|s| s.as_array()) else {
                            self.no("enum without a symbols array");
                            return;
                        };
                        let mut seen = BTreeSet::new();
                        for s in syms {
                            match s.as_str() {
                                Some(x) if name_ok(x) => {
                                    if !seen.insert(x.to_string()) {
                                        self.no(format!("duplicate enum symbol {x}"));
                                    }
                                }
                                Some(x) => self.no(format!("enum symbol {x:?} does not match the grammar")),
                                None => self.no("enum symbol is not a string"),
                            }
                        }
                        if let Some(d) = o.get("default") {
                            match d.as_str() {
                                Some(x) if seen.contains(x) => {}
                                Some(x) => self.no(format!("enum default {x:?} is not a symbol")),
                                None => self.no("enum default is not a string"),
                            }
                        }
                    }
                    _ => {
                        let Some(fields) = o.get("fields").and_then(|f| f.as_array()) else {
                            self.no("record without a fields array");
                            return;
                        };
                        let mut names = BTreeSet::new();
                        for f in fields {
                            let Some(fo) = f.as_object() else {
                                self.no("record field is not an object");
                                continue;
                            };
                            match fo.get("name").and_then(|n| n.as_str()) {
                                Some(n) if name_ok(n) => {
                                    if !names.insert(n.to_string()) {
                                        self.no(format!("duplicate field name {n}"));
                                    }
                                }
                                Some(n) => self.no(format!("field name {n:?} does not match the grammar")),
                                None => self.no("field without a string name"),
                            }
                            match fo.get("type") {
                                Some(ft) => self.schema(ft, my_ns.as_deref()),
                                None => self.no("field without type"),
                            }
                            if let Some(ord) = fo.get("order") {
                                if !matches!(ord.as_str(), Some("ascending" | "descending" | "ignore")) {
                                    self.unclear("field order is not one of the three values");
                                }
                            }
                            if let Some(d) = fo.get("doc") {
                                if !d.is_string() {
                                    self.unclear("field doc is not a string");
                                }
                            }
                            if let Some(a) = fo.get("aliases") {
                                if !a.as_array().is_some_and(|a| a.iter().all(|x| x.as_str().is_some_and(name_ok))) {
                                    self.unclear("field aliases is not an array of names");
                                }
                            }
                        }
                        // The specification is silent on a field alias that equals another field's name or
                        // alias (implementations differ): no verdict.
                        let all_names: Vec<&str> = fields.iter().filter_map(|f| f.get("name").and_then(|n| n.as_str())).collect();
                        let mut seen_alias = BTreeSet::new();
                        for f in fields {
                            let own = f.get("name").and_then(|n| n.as_str());
                            for al in f.get("aliases").and_then(|a| a.as_array()).into_iter().flatten().filter_map(|x| x.as_str()) {
                                if all_names.iter().any(|n| Some(*n) != own && *n == al) || !seen_alias.insert(al.to_string()) {
                                    self.unclear("a field alias equals another field's name or alias");
                                }
                            }
                        }
                    }
                }
            }
            "array" => {
                self.optional_attrs(o, false);
                match o.get("items") {
                    Some(i) => self.schema(i, ns),
                    None => self.no("array without items"),
                }
            }
            "map" => {
                self.optional_attrs(o, false);
                match o.get("values") {
                    Some(i) => self.schema(i, ns),
                    None => self.no("map without values"),
                }
            }
            p if primitive(p).is_some() => self.optional_attrs(o, false),
            other => {
                // a reference in object form
                self.schema(&J::String(other.to_string()), ns);
            }
        }
    }
}

/// Judge a schema JSON document.
pub fn wellformed(j: &J) -> Wf {
    let mut ck = Ck { defined: BTreeSet::new(), no: None, unclear: None };
    ck.schema(j, None);
    if let Some(n) = ck.no {
        return Wf::No(n);
    }
    if let Some(u) = ck.unclear {
        return Wf::Unclear(u);
    }
    // defaults: every field default must conform to the field's schema
    match refparse(j) {
        Ok((s, env)) => {
            if let Some(bad) = bad_default(&s, &env) {
                if bad.starts_with("UNCLEAR") {
                    return Wf::Unclear(bad);
                }
                return Wf::No(bad);
            }
            Wf::Yes
        }
        Err(e) => Wf::Unclear(format!("reference parser: {}", e.0)),
    }
}

fn bad_default(s: &crate::ast::S, env: &crate::ast::Env) -> Option<String> {
    use crate::ast::S;
    fn walk(s: &S, env: &crate::ast::Env, seen: &mut BTreeSet<String>) -> Option<String> {
        match s {
            S::Array(i) | S::Map(i) | S::Logical(_, i) => walk(i, env, seen),
            S::Union(b) => b.iter().find_map(|x| walk(x, env, seen)),
            S::Record { full, fields, .. } => {
                if !seen.insert(full.clone()) {
                    return None;
                }
                for f in fields {
                    if let Some(d) = &f.default {
                        // a union default is taken to conform when it conforms to any branch (the
                        // first-branch rule of older specification versions is stricter)
                        let res = match f.ty.deref(env) {
                            S::Union(br) => {
                                let all: Vec<_> = br.iter().map(|b| default_value(d, b, env)).collect();
                                if all.iter().any(|r| r.is_ok()) { Ok(()) } else { all.into_iter().next().unwrap_or(Err("empty union".into())).map(|_| ()) }
                            }
                            _ => default_value(d, &f.ty, env).map(|_| ()),
                        };
                        if let Err(e) = res {
                            if e.contains("outside the model") {
                                return Some(format!("UNCLEAR: default of field {}: {e}", f.name));
                            }
                            return Some(format!("default of field {} does not conform: {e}", f.name));
                        }
                    }
                    if let Some(b) = walk(&f.ty, env, seen) {
                        return Some(b);
                    }
                }
                None
            }
            _ => None,
        }
    }
    walk(s, env, &mut BTreeSet::new())
}
