#!/usr/bin/env python3
"""Generate MANIFEST.json from the table below (single source of truth for registered checks)."""
import json, sys
CHECKS = {
 "C01": ("model_checking", "E1 smallscope", "bounded-exhaustive enumeration of schema x value cases executed on the real datum writer/reader, judged by an independent value bridge",
         "Every (schema, value) of a bounded schema grammar and boundary-value alphabet is encoded and decoded by the real library; equality, exact consumption, validate/non-validate agreement and back-to-back concatenation are checked on each. Exhaustive within the stated bounds, nothing sampled.",
         "5 C01", "values outside the boundary alphabets, schemas deeper than the depth bound"),
 "C02": ("model_checking", "E1 smallscope + refbin", "bounded-exhaustive enumeration of (schema,value) and of every spec-legal byte layout, cross-checked against an independent encoder/decoder (refbin)",
         "Both directions against an independent implementation written from the specification: library bytes decoded by refbin (byte-equal to the canonical layout), and every block partition / signed count / map order layout emitted by refbin decoded by the library.",
         "5 C02", "refbin (self-tested against the specification's literal examples) is the trusted base"),
 "C06": ("model_checking", "E1 smallscope + refbin", "exhaustive enumeration of all byte strings up to length n over a steering alphabet plus all truncations/substitutions of valid encodings, each decoded by the real library and judged by validate/re-encode/re-decode and the strict reference decoder",
         "Every byte string of the bounded universe is decoded under every schema of SU; whenever the library returns Ok the value must validate, re-encode and re-decode to itself, and inputs the strict reference decoder finds truncated must be errors.",
         "5 C06", "truncation is decided by refbin; byte strings outside the alphabet/length bound not covered"),
 "C03": ("model_checking", "E2 opseq", "explicit-state breadth-first exploration of operation sequences on the real container Writer with canonical-state de-duplication (hook snapshot), every state closed by each terminal and read back against a plain-list reference model",
         "All operation sequences over a 14-operation alphabet up to the depth bound, for every codec x block size x schema configuration, are executed on the real Writer; each reachable canonical state is finished by into_inner, drop and reopen+append, and the real Reader must return exactly the model's values, schema and metadata.",
         "5 C03", "equal canonical snapshots have equal futures for a fixed configuration; depth bound per codec family stated in evidence"),
 "C14": ("fault_enumeration", "E3 envfault", "exhaustive enumeration of every cut offset and every single-byte alteration of every marker/magic byte of real multi-block files, each read by the real Reader and judged against block boundaries from an independent layout parser",
         "Every byte offset of 24 real three-block files (4 schemas x 6 codecs, object counts 1, 2, 100) is used as a cut point and every marker/magic byte is altered three ways; the real Reader must yield exactly the complete blocks before the damage and then one error (or a clean end on a block boundary).",
         "5 C14", "block boundaries come from refocf, the independent layout parser"),
 "C13": ("fault_enumeration", "E3 envfault", "deviation-bounded exhaustive enumeration of sink answer sequences (short writes, Ok(0), Err, Interrupted, flush errors at every call index) over every write path of the real library, compared with the bytes delivered to an in-memory buffer",
         "Every write scenario (datum writer over the schema corpus, container writer per codec, single-object writers, serde writers incl. out-of-order structs and buffered blocks) is executed under every sink answer sequence with at most k deviations plus uniform chunking; either an error is returned or the sink holds exactly the fault-free bytes, and documented byte counts equal what the sink accepted.",
         "5 C13", "sink obeys the std::io::Write contract; deviation bound k per tier in evidence"),
 "C18": ("model_checking", "E1 + E2 + E3", "bounded-exhaustive enumeration: (schema,value) messages against refpcf+CRC-64-AVRO+refbin, all operation sequences up to a depth on one real writer instance, all single-bit header alterations and truncations against the real readers",
         "Every message of the corpus equals marker + little-endian CRC-64-AVRO of the independently computed canonical form + independently encoded datum; every sequence of good / failing / short-sink writes up to the depth bound on one writer yields standalone messages readable by the generic and typed readers; every single-bit header alteration and every truncation is rejected without reading past the header.",
         "5 C18", "refpcf, CRC-64-AVRO, refbin are independent and self-tested; logical-type schemas excluded from the header part (C12's subject)"),
 "C07": ("model_checking", "E1 smallscope", "bounded-exhaustive enumeration of (schema, canonical value, one rewrite at one node) candidates, each validated and written through the real datum, single-object and container writers and read back",
         "For every candidate value (canonical or one de-canonicalising / near-miss rewrite away) of the schema universe: if validation accepts it every validating writer must succeed and the bytes must read back as the same value in canonical form; if validation rejects it every writer must fail and leave no byte. Recorded validation/encoder inconsistencies are reported as known findings by input root-cause pattern.",
         "5 C07", "the forgetful equality relation `same`; one rewrite per candidate"),
 "C12": ("model_checking", "E1 smallscope + refpcf", "bounded-exhaustive enumeration of schema texts and of every irrelevant edit at every node, compared with an independent Parsing-Canonical-Form implementation, bitwise CRC-64-AVRO and python hashlib; exhaustive byte strings for the fingerprint function",
         "Every schema text of the universe is canonicalised by the library and by refpcf on the original JSON; Rabin/MD5/SHA-256 fingerprints are recomputed independently; every irrelevant edit (key order, whitespace, doc, aliases, defaults, attributes, redundant namespaces) must leave canonical form and fingerprints unchanged; the canonical form must be a fixpoint; the Rabin digest equals CRC-64-AVRO on every byte string of length <= 2 and the bounded byte universe; a second process reproduces everything.",
         "5 C12", "refpcf/CRC-64 self-tested against published fingerprints; hashlib trusted"),
 "C10": ("model_checking", "E1 smallscope", "bounded-exhaustive enumeration of schema texts x every decoration at every node, each parsed, re-serialised, strictly scanned, re-parsed and compared through an independent semantic normal form; the container header path included",
         "Every text of the decorated schema universe that the parser accepts is serialised back: the JSON must be strict (no duplicate keys), parse to an equal schema, denote the same full names / structure / logical types / defaults / docs / aliases / custom attributes as the original text (independent normal form), serialise identically a second time, and the header written by Writer must give Reader the same schema.",
         "5 C10", "the semantic normal form `sem` is the harness's independent reading of a schema text"),
 "C11": ("model_checking", "E1 smallscope", "exhaustive enumeration of (a) the generated well-formed text universe, (b) every single JSON-node mutation of seed schemas with a fixed replacement alphabet, (c) all short strings over a JSON-steering alphabet; each parsed by the real parser under catch_unwind, accepted schemas exercised through every listed operation, acceptance compared with a three-valued reference judgement",
         "No text of the enumerated universe makes the parser or any operation on an accepted schema panic; texts the reference judgement finds definitely well formed are accepted and definitely ill formed ones are rejected (grey-zone texts yield no verdict).",
         "5 C11", "the reference judgement wf is written from the specification; hangs are bounded only by the run's overall timeout"),
 "C20": ("model_checking", "E1 + hook H3", "exhaustive enumeration of input subsets x input permutations x drain orders of the parser's pending map (the hash order turned into an enumerated choice by a hook), each executed on the real parse_list and compared with a reference resolvability predicate",
         "For every subset (up to the size bound) of a family of mutually referencing schemas, every permutation of the input list and every order in which the parser can drain its pending map, parsing succeeds exactly when every reference resolves inside the set and no full name is defined twice, returns the schemas in input order, and yields identical JSON for each input across all orderings; long reference chains are explored with deviation-bounded drain orders.",
         "5 C20", "the pending map's iteration order is the only order-dependent nondeterminism; hook H3 owns it"),
 "C04": ("model_checking", "E1 + refocf + codec oracle", "bounded-exhaustive enumeration of value sequences x block partitions x codecs x metadata layouts, executed in both directions between the real Writer/Reader and an independent container implementation with reference codecs",
         "Every file the library writes for the enumerated histories is parsed by an independent container reader (layout, metadata, schema, codec, markers; payloads through python zlib/bz2/lzma, zstd CLI, own snappy decoder; items through refbin) to the same values, and every spec-conforming file shape the independent writer produces (all block partitions, three metadata-map layouts, extra metadata) is read by the library to the same values, schema and user metadata.",
         "5 C04", "refocf/refbin/refsnappy independent; python codecs trusted; zstandard only against the zstd CLI"),
 "C15": ("model_checking", "E1 + codec oracle", "exhaustive enumeration of small payloads, of every expressible compression setting and of window/block-boundary payload sizes, each round-tripped by the real codec and cross-checked with reference codecs",
         "All byte strings up to length 6 over a 4-letter alphabet, every setting the settings types can express (all 256 u8 levels, 6 deflate levels) and payload sizes around every codec window boundary with compressible and incompressible content round-trip; deflate/bzip2/xz/zstd streams are accepted by reference decompressors and vice versa; snappy blocks are independently decodable and carry the big-endian CRC-32, with every single-bit checksum corruption rejected.",
         "5 C15", "python zlib/bz2/lzma trusted; zstandard interop via CLI; payload alphabet/sizes as listed"),
 "C05": ("model_checking", "E1 in isolated workers", "exhaustive enumeration of byte strings / mutations / hostile headers / bombs over every reading entry point and three allocation limits, executed on the real library in worker processes under a counting allocator with a parent-side progress watchdog",
         "Every input of the bounded universe is fed to every reading entry point under each allocation limit in its own process: no panic, no abort, no stall on a single input, and no single allocation request above three times the limit (64 KiB floor; bzip2 working memory excepted).",
         "5 C05", "allocations made by C libraries (xz, zstd) are not observed; recursion depth limited to 200; reader iteration cut at 10 000 items"),
 "C19": ("model_checking", "E4 sched", "exhaustive depth-first exploration (shuttle check_dfs) of all interleavings of 2-3 threads' set/use operations on each process-wide setting, over a scheduling shim inserted under the settings' cells by build-time instrumentation; plus per-limit child processes for uniform enforcement",
         "For each of the seven process-wide settings and each small thread program every interleaving of the cell operations is executed on the real setters/users: all callers and a later read observe one value and it is the value of some thread's first operation; fourteen limit values from 0 to usize::MAX are each installed in a fresh process and every decoder path accepts declared lengths up to the limit and rejects the next one.",
         "5 C19", "std OnceLock methods are linearizable; sequentially consistent scheduling only; instrumentation covers cells that are std::sync::OnceLock"),
}
def main():
    checks = []
    for pid, (cat, engine, technique, text, ref, note) in sorted(CHECKS.items()):
        checks.append({
            "property_id": pid,
            "quick_cmd": f"./check {pid} quick",
            "thorough_cmd": f"./check {pid} thorough",
            "evidence_file": f"/verif/evidence/{pid}.json",
            "replay_cmd_template": f"./check {pid} --replay {{path}}",
            "engine": engine,
            "level_claimed": {"category": cat, "text": text, "design_ref": f"DESIGN.md section {ref}"},
            "level_note": note,
            "technique": technique,
        })
    props = [json.loads(l)["id"] for l in open("/verif/properties.jsonl")]
    na = [{"property_id": p, "reason": "check not built yet in this session (planned, see DESIGN.md section 5); not claimed until it is green on the unchanged tree and red on a demo mutant"} for p in props if p not in CHECKS]
    m = {
        "version": 1,
        "setup_cmd": "./setup.sh",
        "hooks": {
            "guard": "cargo feature `verif-hooks` of apache-avro",
            "enable": "the harness depends on apache-avro by path (/repo/avro) with the feature list in harness/Cargo.toml",
            "baseline_off_cmd": "cd /repo && cargo nextest run --workspace --no-fail-fast --offline",
            "source_commits": ["c19c0b7", "135d249", "645ae97"],
            "add_only": True,
        },
        "engines": [
            {"name": "E1 smallscope", "path": "harness/src", "serves_properties": [k for k in sorted(CHECKS) if "E1" in CHECKS[k][1]], "kind_free_text": "bounded-exhaustive enumeration of schemas x values x byte strings executed directly on the real library, judged by independent reference models"},
            {"name": "E2 opseq", "path": "harness/src/c03.rs", "serves_properties": [k for k in sorted(CHECKS) if "E2" in CHECKS[k][1]], "kind_free_text": "explicit-state BFS over operation sequences on real writer objects, canonical state hashing via hook snapshots, reference model = plain list"},
            {"name": "E3 envfault", "path": "harness/src/c14.rs", "serves_properties": [k for k in sorted(CHECKS) if "E3" in CHECKS[k][1]], "kind_free_text": "exhaustive enumeration of environment faults: cut offsets, byte alterations, sink answer sequences with bounded deviations"},
        ],
        "checks": checks,
        "not_applicable": na,
        "notes": "exit 0 = held (possibly with KNOWN-FINDING lines), 1 = VIOLATION, 2 = machinery failure. known_findings.json lists recorded/fixed defects.",
    }
    json.dump(m, open("/verif/MANIFEST.json", "w"), indent=1)
main()
