#!/bin/bash
set -e
cd "$(dirname "$0")"
cp -n /repo/Cargo.lock harness/Cargo.lock 2>/dev/null || true
./build.sh
./build_c19.sh
./build_types.sh quick
