#!/bin/bash
# run_all_seeds.sh [tier] [seed...] : run every seeded change against the check of its own property
# (apply to /repo, run ./check <ID> <tier>, always revert) and record the outcome in
# seeded/<seed>/detection.json and in meta.json's detected_by.
tier=${1:-quick}; shift
seeds=("$@")
[ ${#seeds[@]} -eq 0 ] && seeds=($(ls -d /verif/seeded/*/ | xargs -n1 basename))
# evidence of runs against a broken tree goes to a scratch directory, never to /verif/evidence
export VERIF_EVIDENCE_DIR=/verif/replays/seed_evidence; mkdir -p $VERIF_EVIDENCE_DIR
cd /repo && git diff --quiet || { echo "/repo not clean"; exit 2; }
for seed in "${seeds[@]}"; do
  id=${seed:0:3}
  git -C /repo apply /verif/seeded/$seed/patch.diff || { echo "$seed: patch does not apply"; continue; }
  t0=$(date +%s)
  out=$(cd /verif && ./check $id $tier 2>&1); rc=$?
  # a change filed under one property may only be reachable through a path that another property's check
  # owns (meta.json: "detect_with"): those checks are run too when the own check is silent
  if [ $rc -ne 1 ]; then
    for other in $(python3 -c "import json,sys; print(' '.join(json.load(open('/verif/seeded/$seed/meta.json')).get('detect_with', [])))"); do
      out2=$(cd /verif && ./check $other $tier 2>&1); rc2=$?
      if [ $rc2 -eq 1 ]; then out="$out2"; rc=1; id=$other; break; fi
    done
  fi
  t1=$(date +%s)
  git -C /repo checkout -- .; git -C /repo clean -fdq avro/src avro_derive/src
  nviol=$(echo "$out" | grep -c '^VIOLATION')
  clause=$(echo "$out" | grep -E '^violation\[0\]' | head -1 | cut -c1-400)
  python3 - "$seed" "$id" "$tier" "$rc" "$nviol" "$clause" "$((t1-t0))" <<'EOF'
import json, sys
seed, pid, tier, rc, nviol, clause, secs = sys.argv[1:8]
d = f"/verif/seeded/{seed}"
det = {"seed": seed, "check": f"./check {pid} {tier}", "exit_code": int(rc), "violation_lines": int(nviol),
       "first_violation": clause, "wall_s": int(secs), "detected": int(rc) == 1 and int(nviol) > 0}
json.dump(det, open(f"{d}/detection.json", "w"), indent=1)
m = json.load(open(f"{d}/meta.json"))
m["detected_by"] = (f"./check {pid} {tier} (exit 1, {nviol} VIOLATION line(s); first: {clause})" if det["detected"]
                    else f"NOT detected by ./check {pid} {tier} (exit {rc})")
json.dump(m, open(f"{d}/meta.json", "w"), indent=1)
print(f"{seed}: rc={rc} violations={nviol} {secs}s {clause[:160]}")
EOF
done
cd /verif && ./build.sh >/dev/null 2>&1
