#!/usr/bin/env python3
"""Build-time instrumentation for C19 (no change to /repo):
copy /repo/avro (current working tree) to <dst>, route every `std::sync::OnceLock` of the crate
through the scheduling shim `crate::verif_once::OnceLock`, add the shim module and a dependency
on shuttle. Files whose content did not change keep their mtime, so cargo rebuilds only what changed.
Prints the number of rewritten import sites; exits 3 if no OnceLock import was found at all
(the settings no longer use OnceLock: the shim cannot interpose; the caller falls back to the
uninstrumented sequential scenarios)."""
import os, re, shutil, sys, filecmp

src = "/repo/avro"
dst = sys.argv[1]
shim = sys.argv[2]

def put(path, text):
    os.makedirs(os.path.dirname(path), exist_ok=True)
    if os.path.exists(path) and open(path, encoding="utf-8").read() == text:
        return
    open(path, "w", encoding="utf-8").write(text)

sites = 0
for root, dirs, files in os.walk(src):
    dirs[:] = [d for d in dirs if d not in ("target", "benches", "examples", "tests", "fuzz")]
    for f in files:
        p = os.path.join(root, f)
        rel = os.path.relpath(p, src)
        out = os.path.join(dst, rel)
        if not f.endswith(".rs"):
            if f in ("Cargo.toml",):
                continue
            os.makedirs(os.path.dirname(out), exist_ok=True)
            if not (os.path.exists(out) and filecmp.cmp(p, out, shallow=False)):
                shutil.copyfile(p, out)
            continue
        text = open(p, encoding="utf-8").read()
        lines = text.split("\n")
        changed = False
        for i, line in enumerate(lines):
            if line.lstrip().startswith("//"):
                continue
            new = line
            # inside a `use std::{...}` group
            new = re.sub(r",\s*sync::OnceLock\b", "", new)
            new = re.sub(r"\bsync::OnceLock\s*,\s*", "", new)
            new = re.sub(r"^\s*use std::sync::OnceLock;\s*$", "", new)
            new = re.sub(r"\bstd::sync::OnceLock\b", "crate::verif_once::OnceLock", new)
            if new != line:
                lines[i] = new
                changed = True
        if changed:
            sites += 1
            # add the shim import after the last top-level `use` of the prelude section
            idx = max(i for i, l in enumerate(lines) if l.startswith("use "))
            # the use may span lines: go to its end
            while not lines[idx].rstrip().endswith(";"):
                idx += 1
            lines.insert(idx + 1, "use crate::verif_once::OnceLock;")
            text = "\n".join(lines)
        if rel == os.path.join("src", "lib.rs"):
            text = text.replace("pub mod validator;\n", "pub mod validator;\npub mod verif_once;\n", 1)
        put(out, text)

put(os.path.join(dst, "src", "verif_once.rs"), open(shim, encoding="utf-8").read())
cargo = open(os.path.join(src, "Cargo.toml"), encoding="utf-8").read()
cargo = cargo.replace("[dependencies]\n", '[dependencies]\nshuttle = "0.9"\n', 1)
cargo = cargo.replace('path = "../avro_derive"', 'path = "/repo/avro_derive"')
# the copy lives outside the workspace: inline what it inherited
ws = open("/repo/Cargo.toml", encoding="utf-8").read()
def ws_value(key, section):
    m = re.search(r"\[%s\](.*?)(\n\[|\Z)" % re.escape(section), ws, re.S)
    if not m:
        return None
    mm = re.search(r"^%s\s*=\s*(.+)$" % re.escape(key), m.group(1), re.M)
    return mm.group(1).strip() if mm else None
for key in ["version", "license", "repository", "edition", "rust-version", "keywords", "categories", "documentation"]:
    v = ws_value(key, "workspace.package")
    cargo = re.sub(r"^%s\.workspace = true$" % re.escape(key), "%s = %s" % (key, v) if v else "", cargo, flags=re.M)
def dep(name):
    v = ws_value(name, "workspace.dependencies")
    return v
cargo = re.sub(r"^(\S+) = \{ workspace = true \}$", lambda m: "%s = %s" % (m.group(1), dep(m.group(1))), cargo, flags=re.M)
cargo = re.sub(r"\[lints\]\nworkspace = true\n?", "", cargo)
cargo = re.sub(r"\[\[bench\]\].*?(?=\n\[)", "", cargo, flags=re.S)
cargo = re.sub(r"\[dev-dependencies\].*?(?=\n\[)", "", cargo, flags=re.S)
put(os.path.join(dst, "Cargo.toml"), cargo)
print("instrumented import sites:", sites)
sys.exit(0 if sites > 0 else 3)
