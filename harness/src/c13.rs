//! C13 (engine E3): deviation-bounded enumeration of sink answers (short writes, Ok(0), errors,
//! Interrupted, flush errors) over every write path, compared with the bytes the same scenario
//! delivers to an in-memory buffer.

use crate::c03::{codecs, kits};
use crate::corpus;
use crate::ev::{self, guarded, hex, Report, Stats, Tier};
use crate::refocf;
use crate::val::{self, to_lib};
use apache_avro::schema::ResolvedSchema;
use apache_avro::types::Value;
use apache_avro::writer::datum::GenericDatumWriter;
use apache_avro::{AvroSchema, GenericSingleObjectWriter, Schema, SpecificSingleObjectWriter, Writer};
use rayon::prelude::*;
use serde::Serialize;
use serde_json::{json, Value as J};
use std::cell::RefCell;
use std::collections::BTreeMap;
use std::io::{self, ErrorKind, Write};
use std::rc::Rc;
use std::time::Instant;

#[derive(Clone, Copy, Debug, PartialEq, Eq, PartialOrd, Ord)]
pub enum Ans {
    One,
    Half,
    AllButOne,
    Zero,
    Err,
    Interrupted,
    FlushErr,
}

pub const WRITE_DEVS: [Ans; 6] = [Ans::One, Ans::Half, Ans::AllButOne, Ans::Zero, Ans::Err, Ans::Interrupted];

#[derive(Default)]
pub struct SinkState {
    pub accepted: Vec<u8>,
    /// (is_flush, offered length) per call, in order
    pub calls: Vec<(bool, usize)>,
    pub script: BTreeMap<usize, Ans>,
    /// uniform policy: accept at most this many bytes per call
    pub chunk: Option<usize>,
    pub faults_delivered: usize,
}

#[derive(Clone, Default)]
pub struct FaultSink(pub Rc<RefCell<SinkState>>);

impl Write for FaultSink {
    fn write(&mut self, buf: &[u8]) -> io::Result<usize> {
        let mut s = self.0.borrow_mut();
        let idx = s.calls.len();
        s.calls.push((false, buf.len()));
        let n = buf.len();
        let mut take = n;
        if let Some(c) = s.chunk {
            take = take.min(c);
        }
        if let Some(a) = s.script.get(&idx).copied() {
            match a {
                Ans::One => take = take.min(1),
                Ans::Half => take = take.min(n.div_ceil(2)),
                Ans::AllButOne => take = take.min(n.saturating_sub(1).max(1)),
                Ans::Zero => take = 0,
                Ans::Err => {
                    s.faults_delivered += 1;
                    return Err(io::Error::other("injected sink error"));
                }
                Ans::Interrupted => {
                    s.faults_delivered += 1;
                    return Err(io::Error::new(ErrorKind::Interrupted, "injected EINTR"));
                }
                Ans::FlushErr => {}
            }
            if take < n {
                s.faults_delivered += 1;
            }
        }
        s.accepted.extend_from_slice(&buf[..take]);
        Ok(take)
    }
    fn flush(&mut self) -> io::Result<()> {
        let mut s = self.0.borrow_mut();
        let idx = s.calls.len();
        s.calls.push((true, 0));
        if s.script.get(&idx) == Some(&Ans::FlushErr) {
            s.faults_delivered += 1;
            return Err(io::Error::other("injected flush error"));
        }
        Ok(())
    }
}

impl FaultSink {
    pub fn with(script: &[(usize, Ans)], chunk: Option<usize>) -> Self {
        let s = FaultSink::default();
        s.0.borrow_mut().script = script.iter().cloned().collect();
        s.0.borrow_mut().chunk = chunk;
        s
    }
    pub fn accepted_len(&self) -> usize {
        self.0.borrow().accepted.len()
    }
}

/// What one scenario step reported.
#[derive(Debug, Clone)]
pub struct Step {
    pub name: &'static str,
    /// Ok(count) or Err(message)
    pub result: Result<usize, String>,
    /// the API documents the count as "number of bytes written"
    pub counted: bool,
    pub accepted_during: usize,
}

pub struct Exec {
    pub steps: Vec<Step>,
    pub accepted: Vec<u8>,
    pub calls: Vec<(bool, usize)>,
    pub faults_delivered: usize,
    pub panic: Option<String>,
}

/// A scenario drives one write path over the given sink, step by step; it stops at the first Err.
pub struct Scenario {
    pub name: String,
    pub desc: J,
    /// container scenarios compare parsed files (metadata order is hash order)
    pub container: bool,
    pub run: Box<dyn Fn(&FaultSink, &mut Vec<Step>) + Send + Sync>,
}

fn step(steps: &mut Vec<Step>, sink: &FaultSink, name: &'static str, counted: bool, f: impl FnOnce() -> Result<usize, String>) -> bool {
    let before = sink.accepted_len();
    let result = f();
    let ok = result.is_ok();
    steps.push(Step { name, result, counted, accepted_during: sink.accepted_len() - before });
    ok
}

pub fn execute(sc: &Scenario, script: &[(usize, Ans)], chunk: Option<usize>) -> Exec {
    let sink = FaultSink::with(script, chunk);
    let mut steps = vec![];
    let r = guarded(|| (sc.run)(&sink, &mut steps));
    let s = sink.0.borrow();
    Exec { steps, accepted: s.accepted.clone(), calls: s.calls.clone(), faults_delivered: s.faults_delivered, panic: r.err() }
}

#[derive(Serialize, AvroSchema, Clone)]
struct Msg {
    id: i64,
    name: String,
    tags: Vec<String>,
}

impl From<Msg> for Value {
    fn from(m: Msg) -> Value {
        Value::Record(vec![
            ("id".into(), Value::Long(m.id)),
            ("name".into(), Value::String(m.name)),
            ("tags".into(), Value::Array(m.tags.into_iter().map(Value::String).collect())),
        ])
    }
}

/// Same record but the struct declares its fields in another order than the schema.
#[derive(Serialize, Clone)]
struct MsgReordered {
    tags: Vec<String>,
    name: String,
    id: i64,
}

fn msg() -> Msg {
    Msg { id: 1 << 40, name: "hello world".into(), tags: vec!["a".into(), "bcd".into()] }
}

const MSG_SCHEMA: &str = r#"{"type":"record","name":"Msg","fields":[{"name":"id","type":"long"},{"name":"name","type":"string"},{"name":"tags","type":{"type":"array","items":"string"}}]}"#;

pub fn scenarios(tier: Tier) -> Vec<Scenario> {
    let mut out: Vec<Scenario> = vec![];
    // S1: datum writer, one value per encoder arm (whole depth-2 corpus, reduced alphabets)
    let depth = 2;
    for sc in corpus::build(depth, false) {
        let Ok(schema) = corpus::parse_lib(&sc.text) else { continue };
        let vals = val::values(&sc.s, &sc.env, 2, 1);
        let _ = tier;
        let pick: Vec<usize> = (0..vals.len()).collect();
        for vi in pick {
            let lv = to_lib(&vals[vi], &sc.s, &sc.env);
            let schema = schema.clone();
            let desc = json!({"path": "GenericDatumWriter::write_value_ref", "schema": sc.json, "value": vals[vi].short()});
            out.push(Scenario {
                name: format!("datum/{}/{}", sc.idx, vi),
                desc,
                container: false,
                run: Box::new(move |sink, steps| {
                    let w = GenericDatumWriter::builder(&schema).build().expect("writer");
                    let mut s = sink.clone();
                    step(steps, sink, "write_value_ref", false, || w.write_value_ref(&mut s, &lv).map_err(|e| e.to_string()));
                }),
            });
        }
    }
    // S2: container writer, each codec
    for kit in kits() {
        if kit.name == "int" {
            continue;
        }
        for (cn, codec) in codecs() {
            let schema = Schema::parse_str(kit.text).expect("kit");
            let kit2 = kit.clone();
            out.push(Scenario {
                name: format!("container/{}/{}", kit.name, cn),
                desc: json!({"path": "Writer: append, flush, append_ser x2 (second crosses the block size), extend, into_inner", "schema": kit.name, "codec": cn}),
                container: true,
                run: Box::new(move |sink, steps| {
                    let marker = [7u8; 16];
                    let mut w = Writer::builder().schema(&schema).writer(sink.clone()).codec(codec).marker(marker).block_size(40).build().expect("writer");
                    if !step(steps, sink, "append_value", true, || w.append_value(kit2.small.clone()).map_err(|e| e.to_string())) {
                        drop(w);
                        return;
                    }
                    if !step(steps, sink, "flush", true, || w.flush().map_err(|e| e.to_string())) {
                        drop(w);
                        return;
                    }
                    if !step(steps, sink, "append_value_ref", true, || w.append_value_ref(&kit2.small2).map_err(|e| e.to_string())) {
                        drop(w);
                        return;
                    }
                    if !step(steps, sink, "append_value_ref(big)", true, || w.append_value_ref(&kit2.big).map_err(|e| e.to_string())) {
                        drop(w);
                        return;
                    }
                    if !step(steps, sink, "extend", true, || w.extend(vec![kit2.small.clone(), kit2.small2.clone()]).map_err(|e| e.to_string())) {
                        drop(w);
                        return;
                    }
                    if !step(steps, sink, "append_value(last)", true, || w.append_value(kit2.small.clone()).map_err(|e| e.to_string())) {
                        drop(w);
                        return;
                    }
                    step(steps, sink, "into_inner", false, || w.into_inner().map(|_| 0).map_err(|e| e.to_string()));
                }),
            });
            // the same writer when every append fills the block at once (block size 1): header, block and
            // marker all go out during the very first append
            let schema = Schema::parse_str(kit.text).expect("kit");
            let kit2 = kit.clone();
            out.push(Scenario {
                name: format!("container-block-per-append/{}/{}", kit.name, cn),
                desc: json!({"path": "Writer with block_size 1: append_value_ref(big) first, append_value, append_ser-less extend, into_inner", "schema": kit.name, "codec": cn}),
                container: true,
                run: Box::new(move |sink, steps| {
                    let marker = [7u8; 16];
                    let mut w = Writer::builder().schema(&schema).writer(sink.clone()).codec(codec).marker(marker).block_size(1).build().expect("writer");
                    if !step(steps, sink, "append_value_ref(big, first)", true, || w.append_value_ref(&kit2.big).map_err(|e| e.to_string())) {
                        drop(w);
                        return;
                    }
                    if !step(steps, sink, "append_value", true, || w.append_value(kit2.small.clone()).map_err(|e| e.to_string())) {
                        drop(w);
                        return;
                    }
                    if !step(steps, sink, "extend", true, || w.extend(vec![kit2.small.clone(), kit2.small2.clone()]).map_err(|e| e.to_string())) {
                        drop(w);
                        return;
                    }
                    step(steps, sink, "into_inner", false, || w.into_inner().map(|_| 0).map_err(|e| e.to_string()));
                }),
            });
        }
    }
    // S3: generic single-object writer, two messages through one instance
    {
        let schema = Schema::parse_str(MSG_SCHEMA).expect("msg schema");
        out.push(Scenario {
            name: "single/generic".into(),
            desc: json!({"path": "GenericSingleObjectWriter::write_value_ref x2", "schema": "Msg"}),
            container: false,
            run: Box::new(move |sink, steps| {
                let mut w = GenericSingleObjectWriter::new_with_capacity(&schema, 64).expect("writer");
                let v: Value = msg().into();
                let mut s = sink.clone();
                if !step(steps, sink, "write_value_ref#1", true, || w.write_value_ref(&v, &mut s).map_err(|e| e.to_string())) {
                    return;
                }
                let v2: Value = Msg { id: -1, name: String::new(), tags: vec![] }.into();
                step(steps, sink, "write_value_ref#2", true, || w.write_value_ref(&v2, &mut s).map_err(|e| e.to_string()));
            }),
        });
    }
    // S4: typed single-object writers
    out.push(Scenario {
        name: "single/specific-value".into(),
        desc: json!({"path": "SpecificSingleObjectWriter::write_value", "type": "Msg"}),
        container: false,
        run: Box::new(|sink, steps| {
            let w = SpecificSingleObjectWriter::<Msg>::new().expect("writer");
            let mut s = sink.clone();
            step(steps, sink, "write_value", true, || w.write_value(msg(), &mut s).map_err(|e| e.to_string()));
        }),
    });
    for tbs in [None, Some(0usize), Some(8)] {
        out.push(Scenario {
            name: format!("single/specific-ref/{tbs:?}"),
            desc: json!({"path": "SpecificSingleObjectWriter::write_ref, then write", "type": "Msg", "target_block_size": tbs}),
            container: false,
            run: Box::new(move |sink, steps| {
                let w = SpecificSingleObjectWriter::<Msg>::builder().maybe_target_block_size(tbs).build();
                let mut s = sink.clone();
                if !step(steps, sink, "write_ref", true, || w.write_ref(&msg(), &mut s).map_err(|e| e.to_string())) {
                    return;
                }
                step(steps, sink, "write", true, || w.write(msg(), &mut s).map_err(|e| e.to_string()));
            }),
        });
    }
    // S5: serde datum writers: in-order and out-of-order structs, buffered blocks
    for tbs in [None, Some(0usize), Some(8)] {
        for reordered in [false, true] {
            out.push(Scenario {
                name: format!("ser/write_ser/{tbs:?}/{reordered}"),
                desc: json!({"path": "GenericDatumWriter::write_ser", "struct_fields_in_schema_order": !reordered, "target_block_size": tbs}),
                container: false,
                run: Box::new(move |sink, steps| {
                    let schema = Schema::parse_str(MSG_SCHEMA).expect("msg schema");
                    let w = GenericDatumWriter::builder(&schema).maybe_target_block_size(tbs).build().expect("writer");
                    let mut s = sink.clone();
                    if reordered {
                        let m = MsgReordered { tags: vec!["a".into(), "bcd".into()], name: "hello world".into(), id: 1 << 40 };
                        step(steps, sink, "write_ser(reordered)", false, || w.write_ser(&mut s, &m).map_err(|e| e.to_string()));
                    } else {
                        step(steps, sink, "write_ser", false, || w.write_ser(&mut s, &msg()).map_err(|e| e.to_string()));
                    }
                }),
            });
        }
    }
    for reordered in [false, true] {
        out.push(Scenario {
            name: format!("ser/write_avro_datum_ref/{reordered}"),
            desc: json!({"path": "write_avro_datum_ref", "struct_fields_in_schema_order": !reordered}),
            container: false,
            run: Box::new(move |sink, steps| {
                let schema = Schema::parse_str(MSG_SCHEMA).expect("msg schema");
                let rs = ResolvedSchema::try_from(&schema).expect("resolved");
                let mut s = sink.clone();
                if reordered {
                    let m = MsgReordered { tags: vec!["a".into(), "bcd".into()], name: "hello world".into(), id: 1 << 40 };
                    step(steps, sink, "write_avro_datum_ref(reordered)", true, || apache_avro::write_avro_datum_ref(&schema, rs.get_names(), &m, &mut s).map_err(|e| e.to_string()));
                } else {
                    step(steps, sink, "write_avro_datum_ref", true, || apache_avro::write_avro_datum_ref(&schema, rs.get_names(), &msg(), &mut s).map_err(|e| e.to_string()));
                }
            }),
        });
    }
    out
}

fn same_container(a: &[u8], e: &[u8]) -> bool {
    match (refocf::parse(a), refocf::parse(e)) {
        (Ok(x), Ok(y)) => {
            let mut mx = x.meta.clone();
            let mut my = y.meta.clone();
            mx.sort();
            my.sort();
            mx == my && x.marker == y.marker && a[x.header_end..] == e[y.header_end..]
        }
        _ => false,
    }
}

/// Judge one execution against the fault-free expectation.
/// Returns (clause, deviation name) on failure.
fn judge(sc: &Scenario, x: &Exec, expect: &[u8]) -> Result<(), (String, Option<&'static str>)> {
    if let Some(p) = &x.panic {
        return Err((format!("panic: {p}"), None));
    }
    let errored = x.steps.iter().any(|s| s.result.is_err());
    if !errored {
        let same = if sc.container { x.accepted == expect || same_container(&x.accepted, expect) } else { x.accepted == expect };
        if !same {
            return Err((
                format!("every call returned Ok but the sink holds {} bytes that differ from the {} bytes delivered to an in-memory buffer", x.accepted.len(), expect.len()),
                None,
            ));
        }
    }
    for s in &x.steps {
        if let (true, Ok(c)) = (s.counted, &s.result) {
            if *c != s.accepted_during {
                return Err((format!("step {} returned {} as the number of bytes written but the sink accepted {} during the call", s.name, c, s.accepted_during), None));
            }
        }
    }
    Ok(())
}

fn devs_for(call: (bool, usize)) -> Vec<Ans> {
    if call.0 {
        return vec![Ans::FlushErr];
    }
    let n = call.1;
    let mut v = vec![];
    for d in WRITE_DEVS {
        match d {
            Ans::One if n <= 1 => {}
            Ans::Half if n <= 2 => {}
            Ans::AllButOne if n <= 3 => {}
            Ans::Zero if n == 0 => {}
            _ => v.push(d),
        }
    }
    v
}

fn explore(sc: &Scenario, sci: usize, expect: &[u8], prefix: &mut Vec<(usize, Ans)>, bound: usize, st: &mut Stats, ord: &mut u64) {
    let x = execute(sc, prefix, None);
    record(sc, sci, &x, expect, prefix, None, st, ord);
    if prefix.len() >= bound {
        return;
    }
    let start = prefix.last().map(|p| p.0 + 1).unwrap_or(0);
    for i in start..x.calls.len() {
        for d in devs_for(x.calls[i]) {
            prefix.push((i, d));
            explore(sc, sci, expect, prefix, bound, st, ord);
            prefix.pop();
        }
    }
}

#[allow(clippy::too_many_arguments)]
fn record(sc: &Scenario, sci: usize, x: &Exec, expect: &[u8], script: &[(usize, Ans)], chunk: Option<usize>, st: &mut Stats, ord: &mut u64) {
    *ord += 1;
    st.states += 1;
    st.evaluations += 1;
    st.transitions += x.calls.len() as u64;
    let script_j: Vec<J> = script.iter().map(|(i, a)| json!({"call": i, "answer": format!("{a:?}")})).collect();
    let case = |msg: &str| {
        json!({"scenario": sc.desc, "answers": script_j, "uniform_chunk": chunk, "observed": msg,
            "steps": x.steps.iter().map(|s| json!({"step": s.name, "result": format!("{:?}", s.result), "accepted_during": s.accepted_during})).collect::<Vec<_>>(),
            "sink_bytes": ev::trunc(&hex(&x.accepted), 400), "expected_bytes": ev::trunc(&hex(expect), 400)})
    };
    match judge(sc, x, expect) {
        Ok(()) => {
            let errored = x.steps.iter().any(|s| s.result.is_err());
            st.outcome(if script.is_empty() && chunk.is_none() { "fault-free" } else if errored { "error-returned" } else { "delivered-exactly" });
            if x.faults_delivered > 0 {
                st.class(format!("{}|{:?}|{:?}|{}", sc.name, script, chunk, errored));
            }
            if script.len() == 1 && sc.container {
                st.sample(|| json!({"scenario": sc.desc, "answers": script_j, "outcome": if errored { "error returned" } else { "all bytes delivered" }}));
            }
        }
        Err((msg, Some(dev))) => {
            st.outcome("known-deviation");
            st.deviation(dev, || case(&msg));
        }
        Err((msg, None)) => {
            st.outcome("violation");
            st.violate((sci as u64) << 32 | *ord, "silent data loss, wrong byte count or panic under a conforming sink", case(&msg), json!({"scenario_idx": sci, "script": script.iter().map(|(i, a)| json!([i, format!("{a:?}")])).collect::<Vec<_>>(), "chunk": chunk}));
        }
    }
}

pub fn run(tier: Tier, replay: Option<&J>) -> i32 {
    let start = Instant::now();
    let scs = scenarios(tier);
    let bound = match tier {
        Tier::Quick => 2,
        Tier::Thorough => 3,
    };
    let only = replay.and_then(|r| r["scenario_idx"].as_u64()).map(|x| x as usize);
    let st = scs
        .par_iter()
        .enumerate()
        .filter(|(i, _)| only.is_none_or(|o| o == *i))
        .map(|(sci, sc)| {
            let mut st = Stats::default();
            // fault-free reference: what an in-memory buffer receives
            let base = execute(sc, &[], None);
            if base.panic.is_some() || base.steps.iter().any(|s| s.result.is_err()) {
                st.violate((sci as u64) << 32, "scenario fails without any fault", json!({"scenario": sc.desc, "steps": format!("{:?}", base.steps), "panic": base.panic}), json!({"scenario_idx": sci}));
                return st;
            }
            let expect = base.accepted.clone();
            let mut ord = 0u64;
            if let Some(r) = replay {
                let script: Vec<(usize, Ans)> = r["script"]
                    .as_array()
                    .map(|a| {
                        a.iter()
                            .map(|p| {
                                let name = p[1].as_str().unwrap_or("");
                                let ans = WRITE_DEVS.iter().copied().chain([Ans::FlushErr]).find(|d| format!("{d:?}") == name).unwrap_or(Ans::Err);
                                (p[0].as_u64().unwrap_or(0) as usize, ans)
                            })
                            .collect()
                    })
                    .unwrap_or_default();
                let chunk = r["chunk"].as_u64().map(|c| c as usize);
                let x = execute(sc, &script, chunk);
                let y = execute(sc, &script, chunk);
                if x.accepted != y.accepted || format!("{:?}", x.steps) != format!("{:?}", y.steps) {
                    ev::machinery("replay diverged between two runs");
                }
                record(sc, sci, &x, &expect, &script, chunk, &mut st, &mut ord);
                return st;
            }
            // deviation-bounded exploration: 0, 1, .. `bound` deviations
            let depth = if sc.name.starts_with("datum/") { bound.min(if tier == Tier::Quick { 2 } else { 3 }) } else { bound.max(if sc.container { 1 } else { 2 }) };
            explore(sc, sci, &expect, &mut vec![], depth, &mut st, &mut ord);
            // uniform policies: every call accepts at most c bytes
            for c in [1usize, 2, 3, 7] {
                let x = execute(sc, &[], Some(c));
                record(sc, sci, &x, &expect, &[], Some(c), &mut st, &mut ord);
            }
            st
        })
        .reduce(Stats::default, Stats::merge);
    let rep = Report {
        id: "C13".into(),
        tier,
        level: "fault_enumeration",
        rule: "for every write scenario (datum writer over the depth-2 schema corpus, container writer per codec, generic and typed single-object writers, serde datum writers incl. out-of-order structs and buffered blocks) all sink answer sequences with at most k deviations from 'accept everything' (accept 1 / half / n-1 bytes, Ok(0), Err, Interrupted, flush Err) at every call index, plus uniform chunk policies 1,2,3,7; a class is a distinct (scenario, answer sequence) in which the sink really delivered a fault".into(),
        bounds: json!({"scenarios": scs.len(), "deviation_bound_datum": bound, "deviation_bound_other": bound.max(2), "deviations": ["accept 1", "accept ceil(n/2)", "accept n-1", "Ok(0)", "Err(Other)", "Err(Interrupted)", "flush Err"], "uniform_chunks": [1,2,3,7]}),
        assumptions: vec!["the sink obeys the std::io::Write contract; the expected byte sequence is what the same scenario delivers to an in-memory buffer".into()],
        exhaustive: replay.is_none(),
        extra: json!({}),
    };
    ev::finish(rep, st, start)
}
