//! Harness-owned schema model, written from the Avro specification text.
//! `refparse` turns schema JSON into a resolved AST (`S`) with full names computed by the
//! specification's namespace rules. It never calls the library.

use serde_json::{Map, Value as J};
use std::collections::BTreeMap;

#[derive(Clone, Debug, PartialEq)]
pub enum Lt {
    Date,
    TimeMillis,
    TimeMicros,
    TsMillis,
    TsMicros,
    TsNanos,
    LtsMillis,
    LtsMicros,
    LtsNanos,
    Decimal { precision: u64, scale: u64 },
    BigDecimal,
    Uuid,
    Duration,
}

#[derive(Clone, Debug, PartialEq)]
pub struct F {
    pub name: String,
    pub aliases: Vec<String>,
    pub ty: S,
    pub default: Option<J>,
}

#[derive(Clone, Debug, PartialEq)]
pub enum S {
    Null,
    Boolean,
    Int,
    Long,
    Float,
    Double,
    Bytes,
    String,
    Logical(Lt, Box<S>),
    Fixed { full: String, aliases: Vec<String>, size: usize },
    Enum { full: String, aliases: Vec<String>, symbols: Vec<String>, default: Option<String> },
    Array(Box<S>),
    Map(Box<S>),
    Union(Vec<S>),
    Record { full: String, aliases: Vec<String>, fields: Vec<F> },
    Ref(String),
}

pub type Env = BTreeMap<String, S>;

#[derive(Debug, Clone)]
pub struct ParseErr(pub String);

fn err<T>(s: impl Into<String>) -> Result<T, ParseErr> {
    Err(ParseErr(s.into()))
}

pub fn primitive(name: &str) -> Option<S> {
    Some(match name {
        "null" => S::Null,
        "boolean" => S::Boolean,
        "int" => S::Int,
        "long" => S::Long,
        "float" => S::Float,
        "double" => S::Double,
        "bytes" => S::Bytes,
        "string" => S::String,
        _ => return None,
    })
}

/// Split a possibly dotted name into (namespace, simple name) per the spec's rules.
/// `ns_attr` is the "namespace" attribute (None when absent), `enclosing` the enclosing namespace.
pub fn full_name(name: &str, ns_attr: Option<&str>, enclosing: Option<&str>) -> (Option<String>, String) {
    if let Some(pos) = name.rfind('.') {
        let ns = &name[..pos];
        let simple = &name[pos + 1..];
        let ns = if ns.is_empty() { None } else { Some(ns.to_string()) };
        (ns, simple.to_string())
    } else {
        let ns = match ns_attr {
            Some("") => None,
            Some(n) => Some(n.to_string()),
            None => enclosing.map(|s| s.to_string()),
        };
        (ns, name.to_string())
    }
}

pub fn join(ns: &Option<String>, simple: &str) -> String {
    match ns {
        Some(n) if !n.is_empty() => format!("{n}.{simple}"),
        _ => simple.to_string(),
    }
}

fn aliases_of(o: &Map<String, J>, ns: &Option<String>) -> Vec<String> {
    let mut out = vec![];
    if let Some(J::Array(a)) = o.get("aliases") {
        for x in a {
            if let J::String(s) = x {
                if s.contains('.') {
                    out.push(s.trim_start_matches('.').to_string());
                } else {
                    out.push(join(ns, s));
                }
            }
        }
    }
    out
}

pub struct RefParser {
    pub env: Env,
    /// names in definition order
    pub order: Vec<String>,
    /// accept references to names defined later (in another document of a set); `refparse_set` checks
    /// afterwards that every one of them got defined
    pub forward: bool,
}

impl RefParser {
    pub fn new() -> Self {
        RefParser { env: Env::new(), order: vec![], forward: false }
    }

    pub fn parse(&mut self, j: &J, enclosing: Option<&str>) -> Result<S, ParseErr> {
        match j {
            J::String(s) => self.parse_name_ref(s, enclosing),
            J::Array(branches) => {
                let mut out = vec![];
                for b in branches {
                    out.push(self.parse(b, enclosing)?);
                }
                Ok(S::Union(out))
            }
            J::Object(o) => self.parse_object(o, enclosing),
            _ => err("schema must be string, array or object"),
        }
    }

    fn parse_name_ref(&mut self, s: &str, enclosing: Option<&str>) -> Result<S, ParseErr> {
        if let Some(p) = primitive(s) {
            return Ok(p);
        }
        let full = if s.contains('.') {
            s.trim_start_matches('.').to_string()
        } else {
            join(&enclosing.map(|x| x.to_string()), s)
        };
        if self.env.contains_key(&full) || self.forward {
            Ok(S::Ref(full))
        } else {
            err(format!("unknown name {full}"))
        }
    }

    fn parse_object(&mut self, o: &Map<String, J>, enclosing: Option<&str>) -> Result<S, ParseErr> {
        let ty = o.get("type").ok_or(ParseErr("no type".into()))?;
        let base = match ty {
            J::String(t) => match t.as_str() {
                "record" | "error" => self.parse_record(o, enclosing)?,
                "enum" => self.parse_enum(o, enclosing)?,
                "fixed" => self.parse_fixed(o, enclosing)?,
                "array" => {
                    let items = o.get("items").ok_or(ParseErr("no items".into()))?;
                    S::Array(Box::new(self.parse(items, enclosing)?))
                }
                "map" => {
                    let values = o.get("values").ok_or(ParseErr("no values".into()))?;
                    S::Map(Box::new(self.parse(values, enclosing)?))
                }
                other => self.parse_name_ref(other, enclosing)?,
            },
            // {"type": {...}} or {"type": [...]}: nested schema
            other => self.parse(other, enclosing)?,
        };
        if matches!(ty, J::String(t) if t == "fixed") {
            return Ok(base);
        }
        Ok(apply_logical(o, base))
    }

    fn define(&mut self, full: &str, s: S) -> Result<(), ParseErr> {
        if self.env.contains_key(full) {
            return err(format!("duplicate definition of {full}"));
        }
        self.env.insert(full.to_string(), s);
        self.order.push(full.to_string());
        Ok(())
    }

    fn parse_record(&mut self, o: &Map<String, J>, enclosing: Option<&str>) -> Result<S, ParseErr> {
        let name = o.get("name").and_then(|n| n.as_str()).ok_or(ParseErr("no name".into()))?;
        let (ns, simple) = full_name(name, o.get("namespace").and_then(|n| n.as_str()), enclosing);
        let full = join(&ns, &simple);
        let aliases = aliases_of(o, &ns);
        // placeholder so recursive references resolve
        self.define(&full, S::Null)?;
        let mut fields = vec![];
        let fl = o.get("fields").and_then(|f| f.as_array()).ok_or(ParseErr("no fields".into()))?;
        for f in fl {
            let fo = f.as_object().ok_or(ParseErr("field not object".into()))?;
            let fname = fo.get("name").and_then(|n| n.as_str()).ok_or(ParseErr("field no name".into()))?;
            let fty = fo.get("type").ok_or(ParseErr("field no type".into()))?;
            let ty = self.parse(fty, ns.as_deref())?;
            let mut fal = vec![];
            if let Some(J::Array(a)) = fo.get("aliases") {
                for x in a {
                    if let J::String(s) = x {
                        fal.push(s.clone());
                    }
                }
            }
            fields.push(F { name: fname.to_string(), aliases: fal, ty, default: fo.get("default").cloned() });
        }
        let rec = S::Record { full: full.clone(), aliases, fields };
        self.env.insert(full, rec.clone());
        Ok(rec)
    }

    fn parse_enum(&mut self, o: &Map<String, J>, enclosing: Option<&str>) -> Result<S, ParseErr> {
        let name = o.get("name").and_then(|n| n.as_str()).ok_or(ParseErr("no name".into()))?;
        let (ns, simple) = full_name(name, o.get("namespace").and_then(|n| n.as_str()), enclosing);
        let full = join(&ns, &simple);
        let aliases = aliases_of(o, &ns);
        let symbols: Vec<String> = o
            .get("symbols")
            .and_then(|s| s.as_array())
            .ok_or(ParseErr("no symbols".into()))?
            .iter()
            .filter_map(|s| s.as_str().map(|s| s.to_string()))
            .collect();
        let default = o.get("default").and_then(|d| d.as_str()).map(|s| s.to_string());
        let e = S::Enum { full: full.clone(), aliases, symbols, default };
        self.define(&full, e.clone())?;
        Ok(e)
    }

    fn parse_fixed(&mut self, o: &Map<String, J>, enclosing: Option<&str>) -> Result<S, ParseErr> {
        let name = o.get("name").and_then(|n| n.as_str()).ok_or(ParseErr("no name".into()))?;
        let (ns, simple) = full_name(name, o.get("namespace").and_then(|n| n.as_str()), enclosing);
        let full = join(&ns, &simple);
        let aliases = aliases_of(o, &ns);
        let size = o.get("size").and_then(|s| s.as_u64()).ok_or(ParseErr("no size".into()))? as usize;
        // a logical type on a named fixed belongs to the definition: references see it too
        let f = apply_logical(o, S::Fixed { full: full.clone(), aliases, size });
        self.define(&full, f.clone())?;
        Ok(f)
    }
}

/// Apply a `logicalType` attribute if it is valid for the base type; otherwise the spec says the
/// logical type is ignored and the underlying type is used.
fn apply_logical(o: &Map<String, J>, base: S) -> S {
    let Some(J::String(lt)) = o.get("logicalType") else { return base };
    let l = match (lt.as_str(), &base) {
        ("date", S::Int) => Lt::Date,
        ("time-millis", S::Int) => Lt::TimeMillis,
        ("time-micros", S::Long) => Lt::TimeMicros,
        ("timestamp-millis", S::Long) => Lt::TsMillis,
        ("timestamp-micros", S::Long) => Lt::TsMicros,
        ("timestamp-nanos", S::Long) => Lt::TsNanos,
        ("local-timestamp-millis", S::Long) => Lt::LtsMillis,
        ("local-timestamp-micros", S::Long) => Lt::LtsMicros,
        ("local-timestamp-nanos", S::Long) => Lt::LtsNanos,
        ("decimal", S::Bytes) | ("decimal", S::Fixed { .. }) => {
            let Some(p) = o.get("precision").and_then(|p| p.as_u64()) else { return base };
            let s = o.get("scale").and_then(|p| p.as_u64()).unwrap_or(0);
            if p == 0 || s > p {
                return base;
            }
            Lt::Decimal { precision: p, scale: s }
        }
        ("big-decimal", S::Bytes) => Lt::BigDecimal,
        ("uuid", S::String) | ("uuid", S::Bytes) => Lt::Uuid,
        ("uuid", S::Fixed { size: 16, .. }) => Lt::Uuid,
        ("duration", S::Fixed { size: 12, .. }) => Lt::Duration,
        _ => return base,
    };
    S::Logical(l, Box::new(base))
}

/// Parse one schema text; returns the root and the environment of named definitions.
pub fn refparse(j: &J) -> Result<(S, Env), ParseErr> {
    let mut p = RefParser::new();
    let s = p.parse(j, None)?;
    Ok((s, p.env))
}

/// Parse a set of documents that may refer to each other's definitions, in any order.
pub fn refparse_set(js: &[&J]) -> Result<(Vec<S>, Env), ParseErr> {
    fn refs_defined(s: &S, env: &Env) -> bool {
        match s {
            S::Ref(n) => env.contains_key(n),
            S::Array(x) | S::Map(x) | S::Logical(_, x) => refs_defined(x, env),
            S::Union(b) => b.iter().all(|x| refs_defined(x, env)),
            S::Record { fields, .. } => fields.iter().all(|f| refs_defined(&f.ty, env)),
            _ => true,
        }
    }
    let mut p = RefParser::new();
    p.forward = true;
    let mut roots = vec![];
    for j in js {
        roots.push(p.parse(j, None)?);
    }
    if roots.iter().chain(p.env.values()).all(|s| refs_defined(s, &p.env)) {
        Ok((roots, p.env))
    } else {
        err("a reference is not defined anywhere in the set")
    }
}

pub fn refparse_str(text: &str) -> Result<(S, Env), ParseErr> {
    let j: J = serde_json::from_str(text).map_err(|e| ParseErr(e.to_string()))?;
    refparse(&j)
}

impl S {
    /// Follow references (and nothing else).
    pub fn deref<'a>(&'a self, env: &'a Env) -> &'a S {
        let mut s = self;
        let mut n = 0;
        while let S::Ref(name) = s {
            s = env.get(name).expect("dangling ref in resolved AST");
            n += 1;
            assert!(n < 100);
        }
        s
    }

    pub fn kind(&self) -> &'static str {
        match self {
            S::Null => "null",
            S::Boolean => "boolean",
            S::Int => "int",
            S::Long => "long",
            S::Float => "float",
            S::Double => "double",
            S::Bytes => "bytes",
            S::String => "string",
            S::Logical(l, _) => match l {
                Lt::Date => "date",
                Lt::TimeMillis => "time-millis",
                Lt::TimeMicros => "time-micros",
                Lt::TsMillis => "ts-millis",
                Lt::TsMicros => "ts-micros",
                Lt::TsNanos => "ts-nanos",
                Lt::LtsMillis => "lts-millis",
                Lt::LtsMicros => "lts-micros",
                Lt::LtsNanos => "lts-nanos",
                Lt::Decimal { .. } => "decimal",
                Lt::BigDecimal => "big-decimal",
                Lt::Uuid => "uuid",
                Lt::Duration => "duration",
            },
            S::Fixed { .. } => "fixed",
            S::Enum { .. } => "enum",
            S::Array(_) => "array",
            S::Map(_) => "map",
            S::Union(_) => "union",
            S::Record { .. } => "record",
            S::Ref(_) => "ref",
        }
    }

    /// A short structural path string ("record(int,array(string))") used for coverage classes.
    pub fn shape(&self, env: &Env, depth: usize) -> String {
        if depth == 0 {
            return "..".into();
        }
        match self {
            S::Array(i) => format!("array({})", i.shape(env, depth - 1)),
            S::Map(i) => format!("map({})", i.shape(env, depth - 1)),
            S::Union(b) => format!("union({})", b.iter().map(|x| x.shape(env, depth - 1)).collect::<Vec<_>>().join(",")),
            S::Record { fields, .. } => {
                format!("record({})", fields.iter().map(|x| x.ty.shape(env, depth - 1)).collect::<Vec<_>>().join(","))
            }
            S::Logical(_, b) => format!("{}<{}>", self.kind(), b.kind()),
            S::Ref(_) => "ref".into(),
            other => other.kind().into(),
        }
    }
}
