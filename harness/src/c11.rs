//! C11: the parser is total (never panics) and accepts exactly the well-formed schemas; every
//! operation on an accepted schema completes without panicking.

use crate::c12::base_texts;
use crate::ev::{self, guarded, Report, Stats, Tier};
use crate::evolve;
use crate::su;
use crate::texts;
use crate::wf::{wellformed, Wf};
use apache_avro::rabin::Rabin;
use apache_avro::schema::ResolvedSchema;
use apache_avro::types::Value;
use apache_avro::Schema;
use rayon::prelude::*;
use serde_json::{json, Value as J};
use std::time::Instant;

/// Every operation the property lists, on an accepted schema. Err(op: panic message).
fn exercise(s: &Schema) -> Result<(), String> {
    let ops: Vec<(&str, Box<dyn Fn() + '_>)> = vec![
        ("canonical_form", Box::new(|| drop(s.canonical_form()))),
        ("fingerprint<Rabin>", Box::new(|| drop(s.fingerprint::<Rabin>()))),
        ("fingerprint<Md5>", Box::new(|| drop(s.fingerprint::<md5::Md5>()))),
        ("fingerprint<Sha256>", Box::new(|| drop(s.fingerprint::<sha2::Sha256>()))),
        ("serde_json::to_string", Box::new(|| drop(serde_json::to_string(s)))),
        ("ResolvedSchema::try_from", Box::new(|| drop(ResolvedSchema::try_from(s)))),
        ("Debug", Box::new(|| drop(format!("{s:?}")))),
        ("Value::validate", Box::new(|| drop(Value::Null.validate(s)))),
        ("independent_canonical_form", Box::new(|| drop(s.independent_canonical_form(&[])))),
    ];
    for (name, op) in ops {
        if let Err(p) = guarded(op) {
            return Err(format!("{name}: {p}"));
        }
    }
    Ok(())
}

const REPLACEMENTS: &[&str] = &["null", "true", "0", "-1", "1.5", "9223372036854775808", "18446744073709551615", "1e400", "\"\"", "\"x\"", "[]", "{}"];

/// All single-node mutations of a JSON document, as texts.
fn mutations(j: &J) -> Vec<(String, String)> {
    let mut out = vec![];
    fn paths(j: &J, cur: &mut Vec<texts::Seg>, out: &mut Vec<Vec<texts::Seg>>) {
        match j {
            J::Object(o) => {
                for (k, v) in o {
                    cur.push(texts::Seg::Key(k.clone()));
                    out.push(cur.clone());
                    paths(v, cur, out);
                    cur.pop();
                }
            }
            J::Array(a) => {
                for (i, v) in a.iter().enumerate() {
                    cur.push(texts::Seg::Idx(i));
                    out.push(cur.clone());
                    paths(v, cur, out);
                    cur.pop();
                }
            }
            _ => {}
        }
    }
    let mut ps = vec![];
    paths(j, &mut vec![], &mut ps);
    for p in ps {
        // delete
        let mut c = j.clone();
        let (last, parent) = p.split_last().unwrap();
        match (texts::get_mut(&mut c, parent), last) {
            (J::Object(o), texts::Seg::Key(k)) => {
                o.remove(k);
            }
            (J::Array(a), texts::Seg::Idx(i)) => {
                a.remove(*i);
            }
            _ => {}
        }
        out.push((format!("delete {p:?}"), c.to_string()));
        // duplicate an array element (duplicate symbols / fields / branches)
        if let texts::Seg::Idx(i) = last {
            let mut c = j.clone();
            if let J::Array(a) = texts::get_mut(&mut c, parent) {
                let x = a[*i].clone();
                a.push(x);
            }
            out.push((format!("duplicate {p:?}"), c.to_string()));
        }
        // replace: textual, so that numbers outside f64/u64 survive
        for r in REPLACEMENTS {
            let marker = "\u{0}MUT\u{0}";
            let mut c = j.clone();
            *texts::get_mut(&mut c, &p) = json!(marker);
            let text = c.to_string().replace(&serde_json::to_string(marker).unwrap(), r);
            out.push((format!("replace {p:?} by {r}"), text));
        }
    }
    out
}

fn short_strings(n: usize) -> Vec<String> {
    let alphabet = ['{', '}', '[', ']', '"', ':', ',', 'a', '1', '-', '.'];
    let mut out = vec![String::new()];
    let mut layer = vec![String::new()];
    for _ in 0..n {
        let mut next = vec![];
        for p in &layer {
            for c in alphabet {
                let mut s = p.clone();
                s.push(c);
                next.push(s);
            }
        }
        out.extend(next.iter().cloned());
        layer = next;
    }
    out
}

fn base_kind(b: &J) -> &str {
    match b {
        J::String(s) => s.as_str(),
        J::Object(o) => o.get("type").and_then(|t| t.as_str()).unwrap_or(""),
        _ => "",
    }
}

/// Does some record field with a default satisfy `pred(default, branch)` for its type or, when the
/// type is a union, for one of its branches? References are followed to their definition.
fn field_with(j: &J, pred: &dyn Fn(&J, &J) -> bool) -> bool {
    fn defs(j: &J, out: &mut Vec<J>) {
        match j {
            J::Object(o) => {
                if matches!(o.get("type").and_then(|t| t.as_str()), Some("enum" | "fixed" | "record")) && o.contains_key("name") {
                    out.push(j.clone());
                }
                o.values().for_each(|v| defs(v, out));
            }
            J::Array(a) => a.iter().for_each(|v| defs(v, out)),
            _ => {}
        }
    }
    let mut all = vec![];
    defs(j, &mut all);
    let deref = |b: &J| -> J {
        if let J::String(s) = b {
            let simple = s.rsplit('.').next().unwrap_or(s);
            if let Some(d) = all.iter().find(|d| d.get("name").and_then(|n| n.as_str()).is_some_and(|n| n.rsplit('.').next() == Some(simple))) {
                return d.clone();
            }
        }
        b.clone()
    };
    fn walk(j: &J, f: &mut dyn FnMut(&J, &J) -> bool) -> bool {
        match j {
            J::Object(o) => {
                if let (Some(d), Some(t)) = (o.get("default"), o.get("type")) {
                    if o.contains_key("name") && f(d, t) {
                        return true;
                    }
                }
                o.values().any(|v| walk(v, f))
            }
            J::Array(a) => a.iter().any(|v| walk(v, f)),
            _ => false,
        }
    }
    walk(j, &mut |d, t| match t {
        J::Array(br) => br.iter().any(|b| pred(d, &deref(b))),
        other => pred(d, &deref(other)),
    })
}

/// Recorded deviations by input pattern.
fn deviation(j: Option<&J>, clause: &str, detail: &str) -> Option<&'static str> {
    fn any(j: &J, f: &dyn Fn(&serde_json::Map<String, J>) -> bool) -> bool {
        match j {
            J::Object(o) => f(o) || o.values().any(|v| any(v, f)),
            J::Array(a) => a.iter().any(|v| any(v, f)),
            _ => false,
        }
    }
    let j = j?;
    let non_object_field = any(j, &|o| matches!(o.get("type").and_then(|t| t.as_str()), Some("record" | "error")) && o.get("fields").and_then(|f| f.as_array()).is_some_and(|a| a.iter().any(|x| !x.is_object())));
    let explicit_null_ns = any(j, &|o| o.get("namespace") == Some(&json!("")) || o.get("name").and_then(|n| n.as_str()).is_some_and(|n| n.starts_with('.')));
    let uuid_bytes_default = any(j, &|o| {
        // a field default whose field type is, or contains (record field, union branch, items), such a type
        o.contains_key("default")
            && o.get("type").is_some_and(|t| {
                any(t, &|t| {
                    let lt = t.get("logicalType").and_then(|l| l.as_str());
                    let base = t.get("type").and_then(|l| l.as_str());
                    matches!((lt, base), (Some("uuid"), Some("bytes" | "fixed")) | (Some("duration"), Some("fixed")))
                })
            })
    });
    let defined_twice = matches!(wellformed(j), Wf::No(r) if r.contains("is defined twice"));
    match clause {
        "ill-formed-schema-accepted" | "operation-on-accepted-schema-panicked" if defined_twice && (detail.contains("is defined twice") || detail.contains("same fullname")) => Some("D-C11-duplicate-full-name-accepted"),
        "ill-formed-schema-accepted" if non_object_field && detail == "record field is not an object" => Some("D-C11-non-object-entries-in-fields-ignored"),
        "ill-formed-schema-accepted" if detail.ends_with("fixed default of the wrong size") => Some("D-C11-fixed-default-of-wrong-size-accepted"),
        "ill-formed-schema-accepted"
            if detail.starts_with("default of field") && field_with(j, &|d, b| d.as_str().is_some_and(|s| base_kind(b) == "fixed" && b.get("size").and_then(|x| x.as_u64()).is_some_and(|n| n as usize != s.chars().count()))) =>
        {
            Some("D-C11-fixed-default-of-wrong-size-accepted")
        }
        "ill-formed-schema-accepted" if detail.starts_with("default of field") && field_with(j, &|d, b| d.as_str().is_some_and(|s| s.chars().any(|c| c as u32 > 255)) && matches!(base_kind(b), "bytes" | "fixed")) => {
            Some("D-C11-bytes-or-fixed-default-with-code-point-above-255-accepted")
        }
        "ill-formed-schema-accepted" if detail.starts_with("default of field") && field_with(j, &|d, b| d.is_array() && base_kind(b) == "bytes") => Some("D-C11-array-default-for-bytes-accepted"),
        "ill-formed-schema-accepted"
            if detail.starts_with("default of field")
                && field_with(j, &|d, b| {
                    d.as_str().is_some_and(|s| b.get("type") == Some(&json!("enum")) && b.get("default").is_some() && !b.get("symbols").and_then(|x| x.as_array()).is_some_and(|a| a.iter().any(|x| x == s)))
                }) =>
        {
            Some("D-C11-non-symbol-field-default-accepted-when-enum-has-default")
        }
        "operation-on-accepted-schema-panicked" if explicit_null_ns && detail.starts_with("Value::validate") && detail.contains("same fullname") => Some("D-C11-explicit-null-namespace-type-collides-with-namespaced-one"),
        "well-formed-schema-rejected" if uuid_bytes_default => Some("D-C11-string-default-for-uuid-on-bytes-rejected"),
        _ => None,
    }
}

fn judge(text: &str, origin: &str, order: u64, st: &mut Stats) {
    // "never hangs": the watchdog reports a text whose parse (or an operation on the parsed schema) is
    // still running after 20 s of wall time during which the process burnt 40 s of CPU
    let _watch = ev::watch(|| text.to_string());
    st.states += 1;
    st.evaluations += 1;
    st.transitions += 1;
    let parsed = guarded(|| Schema::parse_str(text));
    let case = |what: &str| json!({"text": ev::trunc(text, 1500), "origin": origin, "observed": what});
    let replay = json!({"text": text});
    let jv: Option<J> = serde_json::from_str(text).ok();
    let mut fail = |st: &mut Stats, clause: &str, detail: String| match deviation(jv.as_ref(), clause, &detail) {
        Some(dev) => {
            st.outcome("known-deviation");
            st.deviation(dev, || case(&detail));
        }
        None => {
            // group by the shape of the reason (names and numbers removed)
            let shape: String = detail.split_whitespace().filter(|w| w.chars().all(|c| c.is_ascii_lowercase() || c == '-')).take(7).collect::<Vec<_>>().join(" ");
            st.outcome(&format!("violation:{clause}:{shape}"));
            st.violate(order, &format!("{clause}: {shape}"), case(&detail), replay.clone());
        }
    };
    // the other parsing entry points must end like parse_str: parse_reader on the same bytes, and
    // Schema::parse on the JSON document
    {
        st.transitions += 2;
        let by_reader = guarded(|| Schema::parse_reader(&mut text.as_bytes()));
        let by_value = jv.as_ref().map(|j| guarded(|| Schema::parse(j)));
        let same = |a: &Result<Result<Schema, apache_avro::Error>, String>, b: &Result<Result<Schema, apache_avro::Error>, String>| match (a, b) {
            (Ok(Ok(x)), Ok(Ok(y))) => serde_json::to_string(x).ok() == serde_json::to_string(y).ok(),
            (Ok(Err(_)), Ok(Err(_))) => true,
            (Err(_), Err(_)) => true,
            _ => false,
        };
        if !same(&parsed, &by_reader) || by_value.as_ref().is_some_and(|v| !same(&parsed, v)) {
            let summary = |r: &Result<Result<Schema, apache_avro::Error>, String>| match r {
                Ok(Ok(_)) => "accepted".to_string(),
                Ok(Err(e)) => format!("rejected: {e}"),
                Err(p) => format!("panic: {p}"),
            };
            fail(st, "parsing-entry-points-disagree", format!("parse_str: {} | parse_reader: {} | parse(JSON value): {}", summary(&parsed), summary(&by_reader), by_value.as_ref().map(summary).unwrap_or_else(|| "(text is not JSON)".into())));
            return;
        }
    }
    match parsed {
        Err(p) => fail(st, "parser-panicked", p),
        Ok(Err(e)) => {
            // rejected: fine unless the text is definitely well formed
            match jv.as_ref().map(wellformed) {
                Some(Wf::Yes) => fail(st, "well-formed-schema-rejected", e.to_string()),
                _ => st.outcome("rejected"),
            }
        }
        Ok(Ok(schema)) => {
            st.transitions += 9;
            if let Err(p) = exercise(&schema) {
                fail(st, "operation-on-accepted-schema-panicked", p);
                return;
            }
            match jv.as_ref().map(wellformed) {
                Some(Wf::No(reason)) => fail(st, "ill-formed-schema-accepted", reason),
                Some(Wf::Yes) => {
                    st.outcome("accepted-well-formed");
                    st.class(format!("{origin}|{}", text.len().min(400) / 20));
                    st.sample(|| json!({"text": ev::trunc(text, 300), "origin": origin}));
                }
                _ => st.outcome("accepted-unclear"),
            }
        }
    }
}

pub fn run(tier: Tier, replay: Option<&J>) -> i32 {
    let start = Instant::now();
    ev::start_watchdog("C11", "parsing a text (or an operation on the accepted schema) does not finish", 20, 40.0);
    if let Some(r) = replay {
        let mut st = Stats::default();
        if let Some(t) = r["text"].as_str() {
            judge(t, "replay", 0, &mut st);
            let mut st2 = Stats::default();
            judge(t, "replay", 0, &mut st2);
            if st.outcomes != st2.outcomes {
                ev::machinery("replay diverged");
            }
        }
        return finish(tier, st, start, json!({}), false);
    }
    let depth = match tier {
        Tier::Quick => 3,
        Tier::Thorough => 4,
    };
    // (a) generated well-formed universe: bases + every decoration
    let bases = base_texts(depth);
    let mut texts_a: Vec<(String, String)> = vec![];
    for (_, j) in &bases {
        texts_a.push(("universe".into(), j.to_string()));
        for d in texts::decorations(j) {
            texts_a.push((format!("universe+{}", d.name), d.text.to_string()));
        }
    }
    for (l, j) in su::wide_templates() {
        texts_a.push((l.to_string(), j.to_string()));
    }
    // (d) every field of every base text with each default of a candidate pool: the reference
    // judgement decides per text whether the default conforms (both directions are checked)
    let pool: Vec<J> = vec![json!("not-a-uuid"), json!(12345), json!("ZZ_not_a_symbol"), json!({"zz": 1}), json!([1]), json!(true), J::Null, json!(1.5), json!("\u{100}"), json!(""), json!("67e55044-10b1-426f-9247-bb680e5fe0c8")];
    for (_, j) in &bases {
        // every schema of the universe also as the type of a field carrying each candidate default
        let is_record = j.get("type").and_then(|t| t.as_str()) == Some("record");
        if !is_record && !j.to_string().contains("\"Wrap\"") {
            for d in &pool {
                texts_a.push(("wrapped+candidate-default".into(), json!({"type":"record","name":"Wrap","fields":[{"name":"f","type": j, "default": d}]}).to_string()));
            }
        }
        for n in texts::nodes(j) {
            if n.kind == texts::NodeKind::Field {
                for d in &pool {
                    let mut c = j.clone();
                    texts::get_mut(&mut c, &n.path)["default"] = d.clone();
                    texts_a.push(("universe+candidate-default".into(), c.to_string()));
                }
            }
        }
    }
    // (b) mutations of seed texts
    let mut seeds: Vec<J> = evolve::bases().into_iter().map(|b| b.1).collect();
    seeds.extend(su::naming_templates().into_iter().map(|b| b.1));
    seeds.extend(su::naming_templates_empty_ns().into_iter().map(|b| b.1));
    seeds.push(json!({"type":"record","name":"D","fields":[{"name":"a","type":"int","default":1,"doc":"d","aliases":["b"],"order":"ascending"},{"name":"u","type":["null","string"],"default":null},{"name":"m","type":{"type":"map","values":"long"},"default":{"k":1}},{"name":"e","type":{"type":"enum","name":"E","symbols":["A","B"],"default":"A"},"default":"B"},{"name":"x","type":{"type":"fixed","name":"X","size":2},"default":"ab"},{"name":"dec","type":{"type":"bytes","logicalType":"decimal","precision":4,"scale":2}}]}));
    // field aliases that coincide with other fields' names, type aliases that coincide with other types
    seeds.push(json!({"type":"record","name":"Al","fields":[{"name":"x","type":"int"},{"name":"y","type":"int","aliases":["x"]},{"name":"z","type":{"type":"fixed","name":"Fz","size":1,"aliases":["Al"]}}]}));
    let mut texts_b: Vec<(String, String)> = vec![];
    for (si, s) in seeds.iter().enumerate() {
        for (what, t) in mutations(s) {
            texts_b.push((format!("mutation of seed {si}: {what}"), t));
        }
    }
    // extreme shapes
    let deep = |n: usize| format!("{}\"int\"{}", "{\"type\":\"array\",\"items\":".repeat(n), "}".repeat(n));
    texts_b.push(("deep-200".into(), deep(200)));
    texts_b.push(("fixed-size-2^64-1".into(), r#"{"type":"fixed","name":"F","size":18446744073709551615}"#.into()));
    texts_b.push(("fixed-size-2^63".into(), r#"{"type":"fixed","name":"F","size":9223372036854775808}"#.into()));
    texts_b.push(("decimal-precision-2^64-1".into(), r#"{"type":"bytes","logicalType":"decimal","precision":18446744073709551615,"scale":0}"#.into()));
    texts_b.push(("nested-redefinition".into(), r#"{"type":"record","name":"A","fields":[{"name":"f","type":{"type":"record","name":"A","fields":[]}}]}"#.into()));
    texts_b.push(("enum-redefines-record".into(), r#"{"type":"record","name":"A","fields":[{"name":"f","type":{"type":"enum","name":"A","symbols":["X"]}}]}"#.into()));
    // unions with two unnamed branches of the same underlying type, one of them carrying a logical type
    for (lt, base, extra) in [("uuid", "bytes", ""), ("uuid", "string", ""), ("decimal", "bytes", r#","precision":4,"scale":1"#), ("big-decimal", "bytes", ""), ("date", "int", ""), ("time-millis", "int", ""), ("time-micros", "long", ""), ("timestamp-millis", "long", ""), ("timestamp-micros", "long", ""), ("timestamp-nanos", "long", ""), ("local-timestamp-millis", "long", ""), ("local-timestamp-micros", "long", ""), ("local-timestamp-nanos", "long", "")] {
        let logical = format!(r#"{{"type":"{base}","logicalType":"{lt}"{extra}}}"#);
        texts_b.push((format!("union-same-base-twice/{lt}-first"), format!(r#"[{logical},"{base}"]"#)));
        texts_b.push((format!("union-same-base-twice/{lt}-last"), format!(r#"["null","{base}",{logical}]"#)));
        texts_b.push((format!("union-same-base-twice/{lt}-in-field"), format!(r#"{{"type":"record","name":"U","fields":[{{"name":"u","type":[{logical},"{base}"]}}]}}"#)));
    }
    // (c) all short strings
    let shorts = short_strings(if tier == Tier::Quick { 5 } else { 6 });
    let all: Vec<(String, String)> = texts_a.into_iter().chain(texts_b).chain(shorts.into_iter().map(|s| ("short-string".to_string(), s))).collect();
    let st = all
        .par_iter()
        .enumerate()
        .map(|(i, (origin, t))| {
            let mut st = Stats::default();
            judge(t, origin, i as u64, &mut st);
            st
        })
        .reduce(Stats::default, Stats::merge);
    finish(tier, st, start, json!({"texts": all.len(), "schema_depth": depth, "seeds_for_mutation": seeds.len(), "replacement_values": REPLACEMENTS}), true)
}

fn finish(tier: Tier, st: Stats, start: Instant, bounds: J, exhaustive: bool) -> i32 {
    let rep = Report {
        id: "C11".into(),
        tier,
        level: "model_checking",
        rule: "texts = (a) the generated well-formed universe (SU + naming/wide templates + every decoration), (b) every single JSON-node mutation (delete, duplicate element, replace by each of 12 values incl. 2^63, 2^64-1, 1e400) of the seed schemas plus extreme shapes, (c) all strings up to the length bound over { } [ ] \" : , a 1 - . ; each is parsed under catch_unwind; accepted schemas run through canonical form, three fingerprints, serialisation, reference resolution, Debug and validate; acceptance is compared with the three-valued reference judgement wf (definitely well formed => must be accepted, definitely ill formed => must be rejected). A class is (origin, text length bucket) of accepted well-formed texts".into(),
        bounds,
        assumptions: vec!["wf is three-valued: optional attributes of unexpected kinds are 'unclear' and yield no verdict; a union default conforms when it conforms to any branch".into()],
        exhaustive,
        extra: json!({}),
    };
    ev::finish(rep, st, start)
}
