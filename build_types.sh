#!/bin/bash
# Build the C16/C17 harness: generate the type corpus (ref/typegen.py) and compile it against the
# current derive macro. Exit codes: 0 ok; 2 the harness itself does not build (machinery);
# 3 the harness builds with an empty corpus but not with the generated one (the derive macro rejects
# or mis-expands a supported combination: a C17 violation, compiler output in target/corpus_build.log).
set -u
cd "$(dirname "$0")/harness_types"
export CARGO_NET_OFFLINE=true
tier="${1:-quick}"
exec 9>target.lock; flock 9
mkdir -p target
python3 ../ref/typegen.py "$tier" src/generated.new.rs >/dev/null || exit 2
if ! cmp -s src/generated.new.rs src/generated.rs; then mv src/generated.new.rs src/generated.rs; else rm -f src/generated.new.rs; fi
if cargo build --release --offline >target/corpus_build.log 2>&1; then exit 0; fi
# does the harness build without the corpus?
cp src/generated.rs target/generated.keep
printf '// empty corpus (build probe)\npub fn run_all(_st: &mut crate::St) {}\n' > src/generated.rs
if cargo build --release --offline >target/empty_build.log 2>&1; then rc=3; else rc=2; fi
cp target/generated.keep src/generated.rs
exit $rc
