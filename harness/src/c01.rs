//! C01 datum round trip; C02 spec conformance of the binary encoding (both directions).

use crate::ast::{Env, S};
use crate::corpus::{self, Sc};
use crate::ev::{self, guarded, hex, Report, Stats, Tier};
use crate::refbin;
use crate::val::{self, from_lib, to_lib, veq, V};
use apache_avro::reader::datum::GenericDatumReader;
use apache_avro::writer::datum::GenericDatumWriter;
use apache_avro::Schema;
use rayon::prelude::*;
use serde_json::{json, Value as J};
use std::time::Instant;

#[derive(Clone, Default)]
pub struct Filter {
    pub schema: Option<usize>,
    pub value: Option<usize>,
}

impl Filter {
    pub fn from_replay(j: &J) -> Filter {
        Filter { schema: j["schema_idx"].as_u64().map(|x| x as usize), value: j["value_idx"].as_u64().map(|x| x as usize) }
    }
}

pub fn lib_encode(schema: &Schema, v: &apache_avro::types::Value, validate: bool) -> Result<Vec<u8>, String> {
    match guarded(|| {
        let w = GenericDatumWriter::builder(schema).validate(validate).build()?;
        let mut out = vec![];
        w.write_value_ref(&mut out, v)?;
        Ok::<_, apache_avro::Error>(out)
    }) {
        Ok(Ok(b)) => Ok(b),
        Ok(Err(e)) => Err(format!("error: {e}")),
        Err(p) => Err(format!("panic: {p}")),
    }
}

/// Decode one datum with the library from `bytes`; returns (value, bytes consumed).
pub fn lib_decode(schema: &Schema, bytes: &[u8]) -> Result<(apache_avro::types::Value, usize), String> {
    match guarded(|| {
        let r = GenericDatumReader::builder(schema).build()?;
        let mut cur: &[u8] = bytes;
        let v = r.read_value(&mut cur)?;
        Ok::<_, apache_avro::Error>((v, bytes.len() - cur.len()))
    }) {
        Ok(Ok(x)) => Ok(x),
        Ok(Err(e)) => Err(format!("error: {e}")),
        Err(p) => Err(format!("panic: {p}")),
    }
}

/// A conforming `Read` that hands out at most `chunk` bytes per call (a pipe, a socket, a small
/// `BufReader`): code that takes one `read` for a `read_exact` fails on it.
pub struct ChunkReader<'a> {
    pub data: &'a [u8],
    pub pos: usize,
    pub chunk: usize,
}

impl std::io::Read for ChunkReader<'_> {
    fn read(&mut self, buf: &mut [u8]) -> std::io::Result<usize> {
        let n = buf.len().min(self.chunk).min(self.data.len() - self.pos);
        buf[..n].copy_from_slice(&self.data[self.pos..self.pos + n]);
        self.pos += n;
        Ok(n)
    }
}

/// Decode one datum from a source that delivers `chunk` bytes per read; returns (value, bytes consumed).
pub fn lib_decode_chunked(schema: &Schema, bytes: &[u8], chunk: usize) -> Result<(apache_avro::types::Value, usize), String> {
    match guarded(|| {
        let r = GenericDatumReader::builder(schema).build()?;
        let mut src = ChunkReader { data: bytes, pos: 0, chunk };
        let v = r.read_value(&mut src)?;
        Ok::<_, apache_avro::Error>((v, src.pos))
    }) {
        Ok(Ok(x)) => Ok(x),
        Ok(Err(e)) => Err(format!("error: {e}")),
        Err(p) => Err(format!("panic: {p}")),
    }
}

fn case_json(sc: &Sc, v: &V, extra: J) -> J {
    json!({"schema": sc.json, "value": v.short(), "detail": extra})
}

fn replay_json(sc: &Sc, vi: usize, depth: usize) -> J {
    json!({"schema_idx": sc.idx, "value_idx": vi, "depth": depth, "schema": sc.json})
}

fn class_of(sc: &Sc, v: &V, len: usize) -> String {
    fn branches(v: &V, out: &mut String) {
        match v {
            V::Union(i, b) => {
                out.push_str(&format!("u{i}"));
                branches(b, out)
            }
            V::Array(a) | V::Record(a) => a.iter().for_each(|x| branches(x, out)),
            V::Map(m) => m.iter().for_each(|(_, x)| branches(x, out)),
            _ => {}
        }
    }
    let mut b = String::new();
    branches(v, &mut b);
    format!("{}|{}|{}", sc.s.shape(&sc.env, 3), len, b)
}

pub fn tier_depth(tier: Tier) -> usize {
    match tier {
        Tier::Quick => 4,
        Tier::Thorough => 5,
    }
}

pub fn run_c01(tier: Tier, filter: Filter, depth_override: Option<usize>) -> i32 {
    let start = Instant::now();
    refbin::self_test();
    let depth = depth_override.unwrap_or(tier_depth(tier));
    let corpus = corpus::build(depth, false);
    let st = corpus
        .par_iter()
        .filter(|sc| filter.schema.is_none_or(|i| i == sc.idx))
        .map(|sc| c01_schema(sc, &filter, depth))
        .reduce(Stats::default, Stats::merge);
    let rep = Report {
        id: "C01".into(),
        tier,
        level: "model_checking",
        rule: "cases = (schema in SU(depth) + naming templates) x (value in boundary alphabet VU(schema)), plus all ordered pairs of the reduced alphabet written back to back; a class is (schema shape path, encoded length, union-branch vector) with encoded length > 0".into(),
        bounds: json!({"schema_depth": depth, "schemas": corpus.len(), "array_len_max": 3, "map_entries_max": 3}),
        assumptions: vec!["values outside the boundary alphabets and schemas deeper than the depth bound are not covered".into(), "the reference value bridge (to_lib/from_lib) defines the canonical representation".into()],
        exhaustive: filter.schema.is_none(),
        extra: json!({}),
    };
    ev::finish(rep, st, start)
}

fn c01_schema(sc: &Sc, filter: &Filter, depth: usize) -> Stats {
    let mut st = Stats::default();
    let schema = match corpus::parse_lib(&sc.text) {
        Ok(s) => s,
        Err(_) => {
            // acceptance of well-formed schemas is C11's verdict; C01 quantifies over accepted schemas
            st.outcome("schema-not-accepted");
            return st;
        }
    };
    let vals = val::values(&sc.s, &sc.env, 0, 0);
    for (vi, v) in vals.iter().enumerate() {
        if filter.value.is_some_and(|x| x != vi) {
            continue;
        }
        let order = (sc.idx as u64) << 24 | vi as u64;
        st.states += 1;
        st.evaluations += 1;
        let lv = to_lib(v, &sc.s, &sc.env);
        let b1 = lib_encode(&schema, &lv, true);
        let b2 = lib_encode(&schema, &lv, false);
        st.transitions += 2;
        let (b1, b2) = match (b1, b2) {
            (Ok(a), Ok(b)) => (a, b),
            (a, b) => {
                st.outcome("encode-failed");
                st.violate(order, "encoding a conforming value failed", case_json(sc, v, json!({"validating": format!("{a:?}"), "non_validating": format!("{b:?}")})), replay_json(sc, vi, depth));
                continue;
            }
        };
        if b1 != b2 {
            st.outcome("validate-differs");
            st.violate(order, "validating and non-validating writers produce different bytes", case_json(sc, v, json!({"validating": hex(&b1), "non_validating": hex(&b2)})), replay_json(sc, vi, depth));
            continue;
        }
        let mut input = b1.clone();
        input.extend_from_slice(&[0xAA, 0x55]);
        st.transitions += 1;
        match lib_decode(&schema, &input) {
            Err(e) => {
                st.outcome("decode-failed");
                st.violate(order, "decoding the encoded value failed", case_json(sc, v, json!({"bytes": hex(&b1), "error": e})), replay_json(sc, vi, depth));
            }
            Ok((got, consumed)) => {
                let back = from_lib(&got, &sc.s, &sc.env);
                match back {
                    Ok(g) if veq(&g, v) && consumed == b1.len() => {
                        // the same bytes from a source that delivers 1, 2, 3 or 7 bytes per read
                        let mut chunk_problem = None;
                        for chunk in [1usize, 2, 3, 7] {
                            if b1.len() < 2 && chunk > 1 {
                                break;
                            }
                            st.transitions += 1;
                            match lib_decode_chunked(&schema, &input, chunk) {
                                Ok((g2, n2)) if n2 == b1.len() && from_lib(&g2, &sc.s, &sc.env).is_ok_and(|x| veq(&x, v)) => {}
                                other => {
                                    chunk_problem = Some((chunk, format!("{other:?}")));
                                    break;
                                }
                            }
                        }
                        // the deprecated convenience functions are thin wrappers: same bytes, same value
                        if chunk_problem.is_none() {
                            st.transitions += 2;
                            #[allow(deprecated)]
                            let w = guarded(|| apache_avro::to_avro_datum(&schema, lv.clone()));
                            #[allow(deprecated)]
                            let r = guarded(|| apache_avro::from_avro_datum(&schema, &mut &b1[..], None));
                            let w_ok = matches!(&w, Ok(Ok(b)) if *b == b1);
                            let r_ok = matches!(&r, Ok(Ok(g2)) if from_lib(g2, &sc.s, &sc.env).is_ok_and(|x| veq(&x, v)));
                            if !w_ok || !r_ok {
                                chunk_problem = Some((0, format!("to_avro_datum: {} ; from_avro_datum: {}", ev::trunc(&format!("{w:?}"), 150), ev::trunc(&format!("{r:?}"), 150))));
                            }
                        }
                        if let Some((0, what)) = &chunk_problem {
                            st.outcome("wrapper-differs");
                            st.violate(order, "to_avro_datum / from_avro_datum differ from the datum writer / reader they wrap", case_json(sc, v, json!({"bytes": hex(&b1), "observed": what})), replay_json(sc, vi, depth));
                            continue;
                        }
                        if let Some((chunk, what)) = chunk_problem {
                            st.outcome("chunked-source-differs");
                            st.violate(order, "decoding from a source that delivers a few bytes per read differs from decoding the same bytes from a slice", case_json(sc, v, json!({"bytes": hex(&b1), "bytes_per_read": chunk, "decoded_from_slice": ev::trunc(&format!("{got:?}"), 200), "decoded_from_chunked_source": ev::trunc(&what, 300)})), replay_json(sc, vi, depth));
                            continue;
                        }
                        st.outcome(&format!("ok-{}", sc.s.kind()));
                        if !b1.is_empty() {
                            st.class(class_of(sc, v, b1.len()));
                        }
                        st.sample(|| json!({"schema": sc.json, "value": v.short(), "bytes": hex(&b1)}));
                    }
                    Ok(g) if veq(&g, v) => {
                        st.outcome("consumed-wrong");
                        st.violate(order, "decoding did not consume exactly the encoded bytes", case_json(sc, v, json!({"bytes": hex(&b1), "consumed": consumed})), replay_json(sc, vi, depth));
                    }
                    other => {
                        st.outcome("value-differs");
                        st.violate(order, "decoded value differs from the original", case_json(sc, v, json!({"bytes": hex(&b1), "decoded": format!("{got:?}"), "bridge": format!("{other:?}")})), replay_json(sc, vi, depth));
                    }
                }
            }
        }
    }
    // back-to-back pairs over the reduced alphabet
    if filter.value.is_none() {
        let small = val::values(&sc.s, &sc.env, 2, 1);
        let enc: Vec<Option<Vec<u8>>> = small.iter().map(|v| lib_encode(&schema, &to_lib(v, &sc.s, &sc.env), true).ok()).collect();
        for (i, a) in small.iter().enumerate() {
            for (j, b) in small.iter().enumerate() {
                let (Some(ea), Some(eb)) = (&enc[i], &enc[j]) else { continue };
                let order = (sc.idx as u64) << 24 | 1 << 23 | (i * 64 + j) as u64;
                st.states += 1;
                st.evaluations += 1;
                st.transitions += 2;
                let mut buf = ea.clone();
                buf.extend_from_slice(eb);
                let r = guarded(|| {
                    let r = GenericDatumReader::builder(&schema).build().map_err(|e| e.to_string())?;
                    let mut cur: &[u8] = &buf;
                    let x = r.read_value(&mut cur).map_err(|e| e.to_string())?;
                    let y = r.read_value(&mut cur).map_err(|e| e.to_string())?;
                    Ok::<_, String>((x, y, cur.len()))
                });
                let ok = match &r {
                    Ok(Ok((x, y, rest))) => {
                        *rest == 0
                            && from_lib(x, &sc.s, &sc.env).is_ok_and(|g| veq(&g, a))
                            && from_lib(y, &sc.s, &sc.env).is_ok_and(|g| veq(&g, b))
                    }
                    _ => false,
                };
                if ok {
                    st.outcome("pair-ok");
                } else {
                    st.outcome("pair-bad");
                    st.violate(order, "two concatenated datums do not read back as the two values", json!({"schema": sc.json, "first": a.short(), "second": b.short(), "bytes": hex(&buf), "observed": format!("{r:?}")}), json!({"schema_idx": sc.idx, "depth": depth}));
                }
            }
        }
    }
    st
}

// ------------------------------------------------------------------------------------------

pub fn run_c02(tier: Tier, filter: Filter, depth_override: Option<usize>) -> i32 {
    let start = Instant::now();
    refbin::self_test();
    let depth = depth_override.unwrap_or(tier_depth(tier));
    let corpus = corpus::build(depth, false);
    let cap = match tier {
        Tier::Quick => 50000,
        Tier::Thorough => 400000,
    };
    let st = corpus
        .par_iter()
        .filter(|sc| filter.schema.is_none_or(|i| i == sc.idx))
        .map(|sc| c02_schema(sc, &filter, depth, cap))
        .reduce(Stats::default, Stats::merge);
    let st = if filter.schema.is_none() { Stats::merge(st, c02_typed_decimals()) } else { st };
    let rep = Report {
        id: "C02".into(),
        tier,
        level: "model_checking",
        rule: "lib->ref: every (schema,value) of the C01 universe is encoded by the library and decoded by the independent refbin decoder (byte-equal to refbin's canonical layout when no multi-entry map); ref->lib: refbin emits every spec-legal layout (block partitions x signed counts with byte sizes x map entry orders) and the library decodes each (the schema-aware deserializer must frame every non-canonical layout the same way); typed: every apache_avro::Decimal built from a byte string of length 1..=3 over {00,01,7f,80,ff} through the serde writer under decimal on fixed(1,2,3,4,8) / bytes, bare and as a record field - a refusal is no verdict, produced bytes must read back independently as the number; a class is (schema shape path, layout length, layout ordinal bucket)".into(),
        bounds: json!({"schema_depth": depth, "schemas": corpus.len(), "layouts_cap_per_value": cap}),
        assumptions: vec!["refbin is an independent implementation written from the specification text; its self-test against the specification's literal examples runs first".into()],
        exhaustive: filter.schema.is_none(),
        extra: json!({}),
    };
    ev::finish(rep, st, start)
}

#[derive(serde::Serialize)]
struct Booking {
    id: i32,
    amount: apache_avro::Decimal,
}

/// The serde writer given an `apache_avro::Decimal` (which remembers the number of bytes it was built from,
/// usually fewer than the fixed holds) under decimal schemas: it may refuse - no bytes, no verdict - but bytes
/// it does produce must be, by the specification's layout, the number that was handed in. Every byte string
/// of length 1..=3 over {00,01,7f,80,ff} x decimal on fixed(1,2,3,4,8) and on bytes, bare and as a record
/// field.
fn c02_typed_decimals() -> Stats {
    let mut st = Stats::default();
    let alphabet = [0x00u8, 0x01, 0x7f, 0x80, 0xff];
    let mut inputs: Vec<Vec<u8>> = vec![];
    for len in 1..=3usize {
        for code in 0..alphabet.len().pow(len as u32) {
            let mut c = code;
            inputs.push((0..len).map(|_| { let b = alphabet[c % alphabet.len()]; c /= alphabet.len(); b }).collect());
        }
    }
    let number = |b: &[u8]| -> i128 {
        let mut n: i128 = if b[0] & 0x80 != 0 { -1 } else { 0 };
        for x in b {
            n = (n << 8) | *x as i128;
        }
        n
    };
    let mut order = 0xC02D_0000_0000u64;
    for size in [0usize, 1, 2, 3, 4, 8] {
        let dec = if size == 0 {
            json!({"type": "bytes", "logicalType": "decimal", "precision": 20, "scale": 2})
        } else {
            json!({"type": "fixed", "name": "Amount", "size": size, "logicalType": "decimal", "precision": ([0, 2, 4, 6, 9, 0, 0, 0, 18][size]), "scale": 1})
        };
        for in_record in [false, true] {
            let text = if in_record {
                json!({"type": "record", "name": "Booking", "fields": [{"name": "id", "type": "int"}, {"name": "amount", "type": dec}]})
            } else {
                dec.clone()
            };
            let Ok(schema) = corpus::parse_lib(&text.to_string()) else {
                st.outcome("schema-not-accepted");
                continue;
            };
            for input in &inputs {
                order += 1;
                st.states += 1;
                st.evaluations += 1;
                st.transitions += 1;
                let d = apache_avro::Decimal::from(input.clone());
                let got = guarded(|| {
                    let w = GenericDatumWriter::builder(&schema).build()?;
                    if in_record {
                        w.write_ser_to_vec(&Booking { id: 1, amount: d.clone() })
                    } else {
                        w.write_ser_to_vec(&d)
                    }
                });
                let case = |what: String| json!({"schema": text, "decimal_built_from": hex(input), "number": number(input).to_string(), "observed": what});
                let replay = json!({"clause": "typed-decimal", "schema": text, "decimal_built_from": hex(input)});
                match got {
                    Err(p) => {
                        st.outcome("typed-decimal-panic");
                        st.violate(order, "the serde writer panicked on a Decimal", case(p), replay);
                    }
                    Ok(Err(_)) => st.outcome("typed-decimal-refused(no bytes, no verdict)"),
                    Ok(Ok(bytes)) => {
                        // independent reading of the layout
                        let mut rest: &[u8] = &bytes;
                        let mut ok = true;
                        if in_record {
                            ok = rest.first() == Some(&0x02);
                            rest = rest.get(1..).unwrap_or(&[]);
                        }
                        let payload: Option<&[u8]> = if !ok {
                            None
                        } else if size == 0 {
                            // length as a zigzag varint (always < 64 here: one byte)
                            rest.first().filter(|l| **l & 1 == 0 && (**l >> 1) as usize == rest.len() - 1 && rest.len() > 1).map(|_| &rest[1..])
                        } else {
                            (rest.len() == size).then_some(rest)
                        };
                        match payload {
                            Some(p) if number(p) == number(input) => {
                                st.outcome("typed-decimal-ok");
                                st.class(format!("typed-decimal|{size}|{in_record}|{}", input.len()));
                            }
                            _ => {
                                st.outcome("typed-decimal-wrong-bytes");
                                st.violate(order, "the bytes the serde writer produces for a Decimal are not, by the specification's layout, the number that was written", case(hex(&bytes)), replay);
                            }
                        }
                    }
                }
            }
        }
    }
    st
}

fn c02_schema(sc: &Sc, filter: &Filter, depth: usize, cap: usize) -> Stats {
    let mut st = Stats::default();
    let schema = match corpus::parse_lib(&sc.text) {
        Ok(s) => s,
        Err(_) => {
            st.outcome("schema-not-accepted");
            return st;
        }
    };
    let vals = val::values(&sc.s, &sc.env, 0, 0);
    for (vi, v) in vals.iter().enumerate() {
        if filter.value.is_some_and(|x| x != vi) {
            continue;
        }
        let order = (sc.idx as u64) << 24 | vi as u64;
        st.states += 1;
        let lv = to_lib(v, &sc.s, &sc.env);
        // lib -> ref
        st.evaluations += 1;
        st.transitions += 1;
        match lib_encode(&schema, &lv, true) {
            Err(e) => {
                st.outcome("encode-failed");
                st.violate(order, "library failed to encode a conforming value", case_json(sc, v, json!({"error": e})), replay_json(sc, vi, depth));
            }
            Ok(bytes) => match refbin::decode_all(&bytes, &sc.s, &sc.env) {
                Ok(g) if veq(&g, v) => {
                    if !v.has_multi_map() {
                        let canon = refbin::encode(v, &sc.s, &sc.env);
                        if canon != bytes {
                            st.outcome("not-canonical-bytes");
                            st.violate(order, "library bytes differ from the specification's encoding", case_json(sc, v, json!({"library": hex(&bytes), "reference": hex(&canon)})), replay_json(sc, vi, depth));
                            continue;
                        }
                    }
                    st.outcome("lib2ref-ok");
                }
                other => {
                    st.outcome("ref-decode-differs");
                    st.violate(order, "independent decoder does not read the library's bytes back to the value", case_json(sc, v, json!({"library": hex(&bytes), "reference_decoded": format!("{other:?}")})), replay_json(sc, vi, depth));
                }
            },
        }
        // ref -> lib: every layout
        let mut complete = true;
        let ls = refbin::layouts(v, &sc.s, &sc.env, cap, &mut complete);
        if !complete {
            st.caps.insert(format!("layout cap {cap} reached"));
        }
        for (li, l) in ls.iter().enumerate() {
            st.evaluations += 1;
            st.transitions += 1;
            let mut input = l.clone();
            input.extend_from_slice(&[0xAA, 0x55]);
            match lib_decode(&schema, &input) {
                Ok((got, consumed)) if consumed == l.len() && from_lib(&got, &sc.s, &sc.env).is_ok_and(|g| veq(&g, v)) => {
                    // the schema-aware deserializer must frame the same layout the same way (layouts other than
                    // the canonical one are where the two decoders can drift apart: several blocks, byte sizes)
                    if li > 0 {
                        st.transitions += 1;
                        let de = crate::c06::deser_decode(&schema, &input);
                        if de != Ok(l.len()) {
                            st.outcome("ref2lib-deser-bad");
                            st.violate(order, "the schema-aware deserializer does not frame a spec-legal layout like the generic decoder", case_json(sc, v, json!({"layout": hex(l), "layout_index": li, "generic_decoder_consumed": consumed, "deserializer": format!("{de:?}")})), replay_json(sc, vi, depth));
                            continue;
                        }
                    }
                    st.outcome("ref2lib-ok");
                    st.class(format!("{}|{}|{}", sc.s.shape(&sc.env, 3), l.len(), li.min(40)));
                    if li > 0 {
                        st.sample(|| json!({"schema": sc.json, "value": v.short(), "layout": hex(l)}));
                    }
                }
                other => {
                    st.outcome("ref2lib-bad");
                    st.violate(order, "library does not decode a spec-legal layout to the value", case_json(sc, v, json!({"layout": hex(l), "layout_index": li, "observed": ev::trunc(&format!("{other:?}"), 400)})), replay_json(sc, vi, depth));
                    break;
                }
            }
        }
    }
    st
}

#[allow(dead_code)]
pub fn unused(_: &S, _: &Env) {}
