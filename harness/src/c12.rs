//! C12: Parsing Canonical Form and fingerprints against refpcf + bitwise CRC-64-AVRO + python hashlib.

use crate::corpus;
use crate::ev::{self, guarded, hex, Report, Stats, Tier};
use crate::pcf;
use crate::su;
use crate::texts::{self, Deco};
use apache_avro::rabin::Rabin;
use apache_avro::Schema;
use digest::Digest;
use rayon::prelude::*;
use serde_json::{json, Value as J};
use std::io::Write;
use std::process::{Command, Stdio};
use std::time::Instant;

pub struct Fp {
    pub canon: String,
    pub rabin: Vec<u8>,
    pub md5: Vec<u8>,
    pub sha256: Vec<u8>,
}

pub fn lib_fp(text: &str) -> Result<Fp, String> {
    match guarded(|| {
        let s = Schema::parse_str(text).map_err(|e| format!("parse: {e}"))?;
        Ok::<_, String>(Fp {
            canon: s.canonical_form(),
            rabin: s.fingerprint::<Rabin>().bytes,
            md5: s.fingerprint::<md5::Md5>().bytes,
            sha256: s.fingerprint::<sha2::Sha256>().bytes,
        })
    }) {
        Ok(r) => r,
        Err(p) => Err(format!("panic: {p}")),
    }
}

/// Texts of the C12 universe: every corpus schema, the empty-namespace templates.
pub fn base_texts(depth: usize) -> Vec<(usize, J)> {
    let mut out: Vec<(usize, J)> = corpus::build(depth, false).into_iter().filter(|s| !s.label.starts_with("wide")).map(|s| (s.idx, s.json)).collect();
    let n = out.len();
    for (i, (_, j)) in su::naming_templates_empty_ns().into_iter().enumerate() {
        out.push((n + i, j));
    }
    out
}

fn has_logical(j: &J) -> bool {
    match j {
        J::Object(o) => o.contains_key("logicalType") || o.values().any(has_logical),
        J::Array(a) => a.iter().any(has_logical),
        _ => false,
    }
}

fn has_key(j: &J, key: &str) -> bool {
    match j {
        J::Object(o) => o.contains_key(key) || o.values().any(|v| has_key(v, key)),
        J::Array(a) => a.iter().any(|v| has_key(v, key)),
        _ => false,
    }
}

/// Python hashlib digests for a batch of byte strings: (md5, sha256) per input.
fn python_digests(inputs: &[Vec<u8>]) -> Vec<(Vec<u8>, Vec<u8>)> {
    let script = format!("{}/ref/hash_oracle.py", ev::VERIF_DIR);
    let mut child = Command::new("python3").arg(&script).stdin(Stdio::piped()).stdout(Stdio::piped()).spawn().unwrap_or_else(|e| ev::machinery(&format!("cannot start python3 {script}: {e}")));
    let mut stdin = child.stdin.take().unwrap();
    let data: String = inputs.iter().map(|b| b.iter().map(|x| format!("{x:02x}")).collect::<String>() + "\n").collect();
    let writer = std::thread::spawn(move || {
        stdin.write_all(data.as_bytes()).ok();
    });
    let out = child.wait_with_output().unwrap_or_else(|e| ev::machinery(&format!("hash oracle: {e}")));
    writer.join().ok();
    let text = String::from_utf8_lossy(&out.stdout);
    let res: Vec<(Vec<u8>, Vec<u8>)> = text
        .lines()
        .map(|l| {
            let mut p = l.split_whitespace();
            let unhex = |s: &str| (0..s.len() / 2).map(|i| u8::from_str_radix(&s[2 * i..2 * i + 2], 16).unwrap()).collect::<Vec<u8>>();
            (unhex(p.next().unwrap_or("")), unhex(p.next().unwrap_or("")))
        })
        .collect();
    if res.len() != inputs.len() {
        ev::machinery("hash oracle returned the wrong number of lines");
    }
    res
}

pub fn run(tier: Tier, replay: Option<&J>) -> i32 {
    let start = Instant::now();
    pcf::self_test();
    let depth = match tier {
        Tier::Quick => 3,
        Tier::Thorough => 5,
    };
    let bases = base_texts(depth);
    let only = replay.and_then(|r| r["base_idx"].as_u64()).map(|x| x as usize);
    // (canonical bytes, md5, sha256) collected for the python comparison
    let results: Vec<(Stats, Vec<(Vec<u8>, Vec<u8>, Vec<u8>, J)>)> = bases
        .par_iter()
        .filter(|(i, _)| only.is_none_or(|o| o == *i))
        .map(|(bi, j)| {
            let mut st = Stats::default();
            let mut digests = vec![];
            let order = (*bi as u64) << 24;
            let text = j.to_string();
            st.states += 1;
            st.evaluations += 1;
            st.transitions += 1;
            let base = match lib_fp(&text) {
                Ok(f) => f,
                Err(e) => {
                    if e.starts_with("panic") {
                        st.violate(order, "canonical form / fingerprint panicked", json!({"schema": j, "error": e}), json!({"base_idx": bi}));
                    } else {
                        st.outcome("schema-not-accepted(C11)");
                    }
                    return (st, digests);
                }
            };
            let replay = json!({"base_idx": bi});
            // 1. canonical form == refpcf(original JSON)
            let expect = pcf::pcf(j).unwrap_or_else(|e| ev::machinery(&format!("refpcf failed: {e} on {j}")));
            if base.canon != expect {
                let dev = if has_logical(j) {
                    Some("D-C12-logical-types-not-reduced-to-underlying-form")
                } else if has_key(j, "order") {
                    Some("D-C12-field-order-attribute-kept")
                } else {
                    None
                };
                match dev {
                    Some(d) => {
                        st.outcome("known-deviation");
                        st.deviation(d, || json!({"schema": j, "library": base.canon, "specification": expect}));
                    }
                    None => {
                        st.outcome("violation:canonical-form-differs");
                        st.violate(order | 1, "canonical form differs from the specification's normalisation", json!({"schema": j, "library": base.canon, "specification": expect}), replay.clone());
                    }
                }
            } else {
                st.outcome("canonical-form-as-specified");
                st.class(format!("canon|{}", expect.len()));
                st.sample(|| json!({"schema": j, "canonical_form": base.canon}));
            }
            // 2. Rabin == CRC-64-AVRO(canonical form), little endian
            let crc = pcf::crc64_avro(base.canon.as_bytes()).to_le_bytes().to_vec();
            if base.rabin != crc {
                st.outcome("violation:rabin");
                st.violate(order | 2, "Rabin fingerprint is not CRC-64-AVRO of the canonical form in little-endian order", json!({"schema": j, "canonical_form": base.canon, "library": hex(&base.rabin), "reference": hex(&crc)}), replay.clone());
            }
            digests.push((base.canon.as_bytes().to_vec(), base.md5.clone(), base.sha256.clone(), j.clone()));
            // 3. canonical(parse(canonical)) == canonical
            st.transitions += 1;
            match lib_fp(&base.canon) {
                Ok(f2) if f2.canon == base.canon && f2.rabin == base.rabin => st.outcome("canonical-fixpoint"),
                other => {
                    let obs = match &other {
                        Ok(f2) => f2.canon.clone(),
                        Err(e) => e.clone(),
                    };
                    let spec_idempotent = serde_json::from_str::<J>(&expect).ok().and_then(|cj| pcf::pcf(&cj).ok()).is_some_and(|again| again == expect);
                    if !spec_idempotent && base.canon == expect {
                        // the specification's own normalisation is not idempotent here (a null-namespace type
                        // nested in a namespaced one loses its namespace marker): nothing to demand
                        st.outcome("fixpoint-undefined-by-specification");
                    } else if has_logical(j) && base.canon != expect {
                        // consequence of the recorded deviation: the non-reduced form re-parses to the reduced one
                        st.outcome("known-deviation");
                        st.deviation("D-C12-logical-types-not-reduced-to-underlying-form", || json!({"schema": j, "canonical_form": base.canon, "second": obs}));
                    } else {
                        st.outcome("violation:not-a-fixpoint");
                        st.violate(order | 3, "parsing the canonical form and canonicalising again is not the identity", json!({"schema": j, "canonical_form": base.canon, "second": obs}), replay.clone());
                    }
                }
            }
            // 4. irrelevant edits keep canonical form and all fingerprints
            let mut edits: Vec<(String, String)> = vec![("reverse-key-order".into(), texts::emit(j, true, false)), ("whitespace".into(), texts::emit(j, false, true))];
            for Deco { name, pcf_irrelevant, text } in texts::decorations(j) {
                if pcf_irrelevant {
                    edits.push((name.to_string(), text.to_string()));
                }
            }
            for (ei, (name, etext)) in edits.iter().enumerate() {
                st.states += 1;
                st.evaluations += 1;
                st.transitions += 1;
                match lib_fp(etext) {
                    Err(e) => {
                        if e.starts_with("panic") {
                            st.violate(order | 8 | (ei as u64) << 4, "canonical form / fingerprint panicked", json!({"schema_text": etext, "error": e}), replay.clone());
                        } else {
                            st.outcome("edited-text-not-accepted(C11)");
                        }
                    }
                    Ok(f) => {
                        if f.canon == base.canon && f.rabin == base.rabin && f.md5 == base.md5 && f.sha256 == base.sha256 {
                            st.outcome("irrelevant-edit-invariant");
                            st.class(format!("edit|{name}"));
                        } else {
                            let dev = match name.as_str() {
                                "field-order-descending" | "field-order-ignore" => Some("D-C12-field-order-attribute-kept"),
                                "fixed-metadata-named-precision-scale" | "fixed-invalid-decimal-parameters" | "fixed-unknown-logical-type" => Some("D-C12-logical-types-not-reduced-to-underlying-form"),
                                "namespace-empty-string" => None,
                                _ => None,
                            };
                            let case = || json!({"schema": j, "edit": name, "edited_text": etext, "canonical_before": base.canon, "canonical_after": f.canon});
                            match dev {
                                Some(d) => {
                                    st.outcome("known-deviation");
                                    st.deviation(d, case);
                                }
                                None => {
                                    st.outcome(&format!("violation:irrelevant-edit-changes-canonical-form:{name}"));
                                    st.violate(order | 8 | (ei as u64) << 4, &format!("an irrelevant edit ({name}) changes the canonical form or a fingerprint"), case(), replay.clone());
                                }
                            }
                        }
                    }
                }
            }
            (st, digests)
        })
        .collect();
    let mut st = Stats::default();
    let mut digests = vec![];
    for (s, d) in results {
        st = st.merge(s);
        digests.extend(d);
    }
    // 5. the fingerprint function on all byte strings of length <= 2 and BU(4)
    if only.is_none() {
        let mut inputs: Vec<Vec<u8>> = vec![vec![]];
        for a in 0..=255u8 {
            inputs.push(vec![a]);
        }
        for a in 0..=255u8 {
            for b in 0..=255u8 {
                inputs.push(vec![a, b]);
            }
        }
        inputs.extend(crate::c06::byte_universe(if tier == Tier::Quick { 5 } else { 7 }));
        for (i, inp) in inputs.iter().enumerate() {
            st.states += 1;
            st.evaluations += 1;
            st.transitions += 1;
            let lib = Rabin::digest(inp).to_vec();
            let reference = pcf::crc64_avro(inp).to_le_bytes().to_vec();
            if lib != reference {
                st.outcome("violation:rabin-bytes");
                st.violate(1 << 60 | i as u64, "Rabin digest differs from bitwise CRC-64-AVRO", json!({"input": hex(inp), "library": hex(&lib), "reference": hex(&reference)}), json!({}));
            } else {
                st.outcome("rabin-bytes-ok");
            }
        }
        st.class(format!("rabin-bytes|{}", inputs.len()));
    }
    // 6. MD5 / SHA-256 against python hashlib
    let py = python_digests(&digests.iter().map(|d| d.0.clone()).collect::<Vec<_>>());
    for (i, ((canon, md5, sha, j), (pm, ps))) in digests.iter().zip(py.iter()).enumerate() {
        st.evaluations += 1;
        st.transitions += 1;
        if md5 != pm || sha != ps {
            st.outcome("violation:md5-sha256");
            st.violate(1 << 61 | i as u64, "MD5/SHA-256 fingerprint differs from the digest of the canonical form's UTF-8 bytes", json!({"schema": j, "canonical_form": String::from_utf8_lossy(canon), "library_md5": hex(md5), "python_md5": hex(pm), "library_sha256": hex(sha), "python_sha256": hex(ps)}), json!({}));
        } else {
            st.outcome("md5-sha256-ok");
        }
    }
    // 7. a second process computes identical output
    if only.is_none() {
        let exe = std::env::current_exe().unwrap_or_else(|e| ev::machinery(&e.to_string()));
        let out = Command::new(exe).args(["C12-DUMP", "quick"]).output().unwrap_or_else(|e| ev::machinery(&e.to_string()));
        let mine = dump(depth.min(2));
        st.evaluations += 1;
        st.transitions += 1;
        if String::from_utf8_lossy(&out.stdout) != mine {
            st.outcome("violation:not-reproducible");
            st.violate(1 << 62, "canonical forms / fingerprints differ between two processes", json!({"first_bytes": mine.len(), "second_bytes": out.stdout.len()}), json!({}));
        } else {
            st.outcome("second-process-identical");
        }
    }
    let rep = Report {
        id: "C12".into(),
        tier,
        level: "model_checking",
        rule: "for every schema text of the universe (SU + naming templates incl. explicitly empty namespaces): canonical_form == refpcf(original JSON); Rabin == bitwise CRC-64-AVRO little-endian; MD5/SHA-256 == python hashlib; canonical form is a fixpoint; every irrelevant edit (key order, whitespace, doc, aliases, defaults, custom attributes, redundant namespace spellings, field order) leaves canonical form and all three fingerprints unchanged; the Rabin digest equals CRC-64-AVRO on all byte strings of length <= 2 and the bounded byte universe; a second process reproduces the output. A class is a distinct (edit kind) or canonical-form length".into(),
        bounds: json!({"schema_depth": depth, "base_texts": bases.len()}),
        assumptions: vec!["refpcf and CRC-64-AVRO are written from the specification and self-tested against published fingerprints; MD5/SHA-256 come from python's hashlib".into()],
        exhaustive: replay.is_none(),
        extra: json!({}),
    };
    ev::finish(rep, st, start)
}

/// Deterministic dump used for the two-process comparison.
pub fn dump(depth: usize) -> String {
    let mut out = String::new();
    for (i, j) in base_texts(depth) {
        if let Ok(f) = lib_fp(&j.to_string()) {
            out.push_str(&format!("{i} {} {} {} {}\n", f.canon, hex(&f.rabin), hex(&f.md5), hex(&f.sha256)));
        }
    }
    out
}
