//! C06: whatever decodes successfully conforms, re-encodes and re-decodes to itself; truncated
//! datums are errors. Byte universe BU(n) plus truncations / substitutions of valid encodings.

use crate::ast::S;
use crate::c01::{lib_decode, lib_encode, Filter};
use crate::corpus::{self, Sc};
use crate::ev::{self, guarded, hex, Report, Stats, Tier};
use crate::refbin::{self, Cur, DecErr};
use crate::val::{self, raw, to_lib, veq, V};
use rayon::prelude::*;
use serde_json::json;
use std::time::Instant;

pub const B: [u8; 8] = [0x00, 0x01, 0x02, 0x03, 0x7f, 0x80, 0xfe, 0xff];

/// All strings of length <= n over B, shortest first.
pub fn byte_universe(n: usize) -> Vec<Vec<u8>> {
    let mut out: Vec<Vec<u8>> = vec![vec![]];
    let mut layer: Vec<Vec<u8>> = vec![vec![]];
    for _ in 0..n {
        let mut next = Vec::with_capacity(layer.len() * 8);
        for p in &layer {
            for b in B {
                let mut x = p.clone();
                x.push(b);
                next.push(x);
            }
        }
        out.extend(next.iter().cloned());
        layer = next;
    }
    out
}

/// Truncations at every offset and single-byte substitutions by every member of B.
pub fn mutations(valid: &[u8]) -> Vec<Vec<u8>> {
    let mut out = vec![];
    for cut in 0..valid.len() {
        out.push(valid[..cut].to_vec());
    }
    if valid.len() <= 24 {
        for i in 0..valid.len() {
            for b in B {
                if valid[i] != b {
                    let mut x = valid.to_vec();
                    x[i] = b;
                    out.push(x);
                }
            }
        }
    }
    out
}

pub fn run(tier: Tier, filter: Filter) -> i32 {
    let start = Instant::now();
    refbin::self_test();
    // a process-wide setting; C06 is not about the limit, keep allocations small
    // (also bounds the per-block loop over zero-width items, which dominates the run time otherwise)
    apache_avro::util::max_allocation_bytes(1 << 12);
    let (depth, n) = match tier {
        Tier::Quick => (2, 4),
        Tier::Thorough => (3, 6),
    };
    DESER_BU_LEN.store(std::env::var("VERIF_C06_DESER_LEN").ok().and_then(|s| s.parse().ok()).unwrap_or(n), std::sync::atomic::Ordering::Relaxed);
    let corpus = corpus::build(depth, false);
    let bu = byte_universe(n);
    let st = corpus
        .par_iter()
        .filter(|sc| filter.schema.is_none_or(|i| i == sc.idx))
        .map(|sc| schema_sweep(sc, &bu, &filter))
        .reduce(Stats::default, Stats::merge);
    // long payloads, in a child process with a 1 MiB allocation limit
    let st = if filter.schema.is_none() || filter.schema.is_some_and(|i| i >= 1_000_000) {
        let out = format!("{}/harness/target/c06_long.json", ev::VERIF_DIR);
        let _ = std::fs::remove_file(&out);
        let exe = std::env::current_exe().unwrap_or_else(|e| ev::machinery(&e.to_string()));
        let status = std::process::Command::new(exe).args(["C06-LONG", &out]).status().unwrap_or_else(|e| ev::machinery(&format!("long-payload child: {e}")));
        match crate::c05::read_stats(&out) {
            Some((s2, _)) if status.success() => st.merge(s2),
            _ => ev::machinery(&format!("long-payload child failed: {status:?}")),
        }
    } else {
        st
    };
    let mut st = st;
    if filter.schema.is_none() {
        container_clause(&mut st);
    }
    let rep = Report {
        id: "C06".into(),
        tier,
        level: "model_checking",
        rule: format!("cases = schema in SU({depth}) x (all byte strings of length <= {n} over {{00,01,02,03,7f,80,fe,ff}} + every truncation and every single-byte substitution of every valid encoding of the C01 value universe); a class is (schema shape, decode outcome, consumed length) for inputs on which decoding returned Ok. Each input is also read by the schema-aware deserializer into a universal deserialize_any type (all truncations/substitutions, and byte strings up to length 3 quick / 4 thorough): a truncated datum must be an error there too, a datum the reference decoder and the generic decoder accept must be accepted with the same length, two Ok verdicts consume the same bytes"),
        bounds: json!({"schema_depth": depth, "byte_string_len": n, "byte_alphabet": "00 01 02 03 7f 80 fe ff", "schemas": corpus.len()}),
        assumptions: vec!["'truncated' is decided by the independent strict decoder refbin (it ran out of input)".into()],
        exhaustive: filter.schema.is_none(),
        extra: json!({}),
    };
    ev::finish(rep, st, start)
}

/// Long payloads (a `bytes`/`string` of 4096, 4097 and 70 000 bytes in every position a payload can take):
/// the valid encoding, and cuts near the start, in the middle and near the end of it. Runs in a child
/// process because it needs a larger allocation limit than the main sweep (the limit is write-once).
pub fn long_child(out_path: &str) -> i32 {
    apache_avro::util::max_allocation_bytes(1 << 20);
    let mut st = Stats::default();
    let filter = Filter::default();
    let shapes: Vec<(&str, serde_json::Value, fn(V) -> V)> = vec![
        ("long-bytes", json!("bytes"), |p| p),
        ("long-string", json!("string"), |p| p),
        ("long-last-field", json!({"type":"record","name":"L1","fields":[{"name":"a","type":"int"},{"name":"s","type":"string"}]}), |p| V::Record(vec![V::Int(1), p])),
        ("long-first-field", json!({"type":"record","name":"L2","fields":[{"name":"s","type":"bytes"},{"name":"a","type":"int"}]}), |p| V::Record(vec![p, V::Int(1)])),
        ("long-array-item", json!({"type":"array","items":"string"}), |p| V::Array(vec![p])),
        ("long-map-value", json!({"type":"map","values":"bytes"}), |p| V::Map(vec![("k".to_string(), p)])),
        ("long-union-branch", json!(["null","string"]), |p| V::Union(1, Box::new(p))),
    ];
    for (k, (label, j, wrap)) in shapes.into_iter().enumerate() {
        let (s, env) = crate::ast::refparse(&j).unwrap_or_else(|e| ev::machinery(&format!("long payload schema: {e:?}")));
        let sc = Sc { idx: 1_000_000 + k, label: label.to_string(), text: j.to_string(), json: j.clone(), s, env };
        let Ok(schema) = corpus::parse_lib(&sc.text) else { continue };
        let is_string = sc.text.contains("\"string\"");
        let mut idx = 0usize;
        for len in [4096usize, 4097, 70_000] {
            let payload = if is_string { V::Str("a".repeat(len)) } else { V::Bytes(vec![0x61; len]) };
            let v = wrap(payload);
            let enc = refbin::encode(&v, &sc.s, &sc.env);
            let mut cuts: Vec<usize> = (0..=6).chain([len / 2, enc.len() - 3, enc.len() - 2, enc.len() - 1, enc.len()]).collect();
            cuts.sort();
            cuts.dedup();
            for c in cuts {
                judge(&sc, &schema, &enc[..c], "long-payload", idx, &mut st);
                idx += 1;
            }
        }
        let _ = &filter;
    }
    crate::c05::write_stats(out_path, &st, 0);
    0
}

/// The same clause one level up: inside an uncompressed container file, a block whose framing is intact
/// (object count, byte size and marker consistent) but whose payload ends early - after an earlier, longer
/// block - must deliver its complete objects and then an error, never an object completed with other bytes.
fn container_clause(st: &mut Stats) {
    use crate::refocf::{write_block, write_header, MetaLayout};
    const MARKER: [u8; 16] = [9; 16];
    let shapes: Vec<(serde_json::Value, Vec<V>, Vec<V>)> = vec![
        (json!("string"), vec![V::Str("a much longer first value, so that the first block is the larger one".into()), V::Str("second".into())], vec![V::Str("abc".into()), V::Str("de".into())]),
        (
            json!({"type":"record","name":"R","fields":[{"name":"n","type":"long"},{"name":"s","type":"bytes"}]}),
            vec![V::Record(vec![V::Long(i64::MAX), V::Bytes(vec![7; 40])]), V::Record(vec![V::Long(1), V::Bytes(vec![8; 30])])],
            vec![V::Record(vec![V::Long(-3), V::Bytes(vec![1, 2, 3])]), V::Record(vec![V::Long(5), V::Bytes(vec![4])])],
        ),
    ];
    for (k, (j, first, second)) in shapes.into_iter().enumerate() {
        let (s, env) = crate::ast::refparse(&j).unwrap_or_else(|e| ev::machinery(&format!("container clause schema: {e:?}")));
        let meta = vec![("avro.schema".to_string(), j.to_string().into_bytes())];
        let enc = |vals: &[V]| -> (Vec<u8>, Vec<usize>) {
            let mut out = vec![];
            let mut ends = vec![];
            for v in vals {
                out.extend(refbin::encode(v, &s, &env));
                ends.push(out.len());
            }
            (out, ends)
        };
        let (p1, _) = enc(&first);
        let (p2, ends2) = enc(&second);
        for cut in 0..p2.len() {
            st.states += 1;
            st.evaluations += 1;
            st.transitions += 1;
            let mut file = write_header(&meta, MetaLayout::OneBlock, &MARKER);
            write_block(first.len(), &p1, &MARKER, &mut file);
            write_block(second.len(), &p2[..cut], &MARKER, &mut file);
            let complete = ends2.iter().filter(|e| **e <= cut).count();
            let r = guarded(|| {
                let reader = apache_avro::Reader::new(&file[..]).map_err(|e| e.to_string())?;
                let mut oks = vec![];
                let mut errs = 0usize;
                for item in reader.take(100) {
                    match item {
                        Ok(v) => oks.push(v),
                        Err(_) => errs += 1,
                    }
                }
                Ok::<_, String>((oks, errs))
            });
            let expect: Vec<&V> = first.iter().chain(second.iter().take(complete)).collect();
            let ok = matches!(&r, Ok(Ok((oks, errs))) if *errs >= 1 && oks.len() == expect.len() && oks.iter().zip(&expect).all(|(g, v)| crate::val::from_lib(g, &s, &env).is_ok_and(|x| veq(&x, v))));
            if ok {
                st.outcome("container-block-short-payload-rejected");
            } else {
                st.outcome("violation:container-block-short-payload");
                st.violate(2u64 << 60 | (k as u64) << 20 | cut as u64, "a container block whose payload ends early delivered something other than its complete objects followed by an error", json!({"schema": j, "second_block_payload_cut_at": cut, "second_block_payload_len": p2.len(), "complete_objects_in_second_block": complete, "observed": ev::trunc(&format!("{r:?}"), 400)}), json!({"schema_idx": 2_000_000 + k}));
            }
        }
    }
}

/// With VERIF_VERBOSE: names the schemas whose sweep took more than a second.
struct SlowNote(usize, String, Instant);

impl Drop for SlowNote {
    fn drop(&mut self) {
        if self.2.elapsed().as_secs_f64() > 1.0 && std::env::var("VERIF_VERBOSE").is_ok() {
            eprintln!("slow schema {} ({:.1}s): {}", self.0, self.2.elapsed().as_secs_f64(), ev::trunc(&self.1, 200));
        }
    }
}

fn schema_sweep(sc: &Sc, bu: &[Vec<u8>], filter: &Filter) -> Stats {
    let mut st = Stats::default();
    let schema = match corpus::parse_lib(&sc.text) {
        Ok(s) => s,
        Err(_) => {
            st.outcome("schema-not-accepted");
            return st;
        }
    };
    let t0 = Instant::now();
    let _slow = SlowNote(sc.idx, sc.text.clone(), t0);
    let mut idx = 0usize;
    let mut one = |bytes: &[u8], origin: &str, st: &mut Stats| {
        let my = idx;
        idx += 1;
        if filter.value.is_some_and(|x| x != my) {
            return;
        }
        judge(sc, &schema, bytes, origin, my, st);
    };
    for b in bu {
        one(b, "BU", &mut st);
    }
    // structured: truncations / substitutions of valid encodings
    let vals = val::values(&sc.s, &sc.env, 1, 0);
    let mut seen = std::collections::BTreeSet::new();
    for v in &vals {
        let enc = refbin::encode(v, &sc.s, &sc.env);
        if enc.len() > 80 {
            continue;
        }
        for m in mutations(&enc) {
            if seen.insert(m.clone()) {
                one(&m, "mutation", &mut st);
            }
        }
        // other spec-legal layouts of the same value (several blocks, negative counts with byte sizes) and
        // every truncation of them: the library never writes these, both decoders must read them alike
        let mut complete = true;
        for l in refbin::layouts(v, &sc.s, &sc.env, 6, &mut complete).into_iter().skip(1) {
            if l.len() > 40 {
                continue;
            }
            for cut in 0..=l.len() {
                let m = l[..cut].to_vec();
                if seen.insert(m.clone()) {
                    one(&m, "layout", &mut st);
                }
            }
        }
    }
    st
}

/// Universal target of the schema-aware deserializer: it asks for `deserialize_any`, so the
/// deserializer follows the schema, and it accepts whatever it is shown. Only framing is observed.
pub struct Dyn;

impl<'de> serde::Deserialize<'de> for Dyn {
    fn deserialize<D: serde::Deserializer<'de>>(d: D) -> Result<Dyn, D::Error> {
        d.deserialize_any(DynVisitor)
    }
}

struct DynVisitor;

macro_rules! dyn_scalar {
    ($($f:ident: $t:ty),*) => { $(fn $f<E: serde::de::Error>(self, _: $t) -> Result<Dyn, E> { Ok(Dyn) })* };
}

impl<'de> serde::de::Visitor<'de> for DynVisitor {
    type Value = Dyn;
    fn expecting(&self, f: &mut std::fmt::Formatter) -> std::fmt::Result {
        f.write_str("anything")
    }
    dyn_scalar!(visit_bool: bool, visit_i8: i8, visit_i16: i16, visit_i32: i32, visit_i64: i64, visit_i128: i128, visit_u8: u8, visit_u16: u16, visit_u32: u32, visit_u64: u64, visit_u128: u128, visit_f32: f32, visit_f64: f64, visit_char: char, visit_str: &str, visit_string: String, visit_bytes: &[u8], visit_byte_buf: Vec<u8>);
    fn visit_none<E: serde::de::Error>(self) -> Result<Dyn, E> {
        Ok(Dyn)
    }
    fn visit_unit<E: serde::de::Error>(self) -> Result<Dyn, E> {
        Ok(Dyn)
    }
    fn visit_some<D: serde::Deserializer<'de>>(self, d: D) -> Result<Dyn, D::Error> {
        <Dyn as serde::Deserialize>::deserialize(d)
    }
    fn visit_newtype_struct<D: serde::Deserializer<'de>>(self, d: D) -> Result<Dyn, D::Error> {
        <Dyn as serde::Deserialize>::deserialize(d)
    }
    fn visit_seq<A: serde::de::SeqAccess<'de>>(self, mut a: A) -> Result<Dyn, A::Error> {
        while a.next_element::<Dyn>()?.is_some() {}
        Ok(Dyn)
    }
    fn visit_map<A: serde::de::MapAccess<'de>>(self, mut a: A) -> Result<Dyn, A::Error> {
        while a.next_entry::<Dyn, Dyn>()?.is_some() {}
        Ok(Dyn)
    }
    fn visit_enum<A: serde::de::EnumAccess<'de>>(self, a: A) -> Result<Dyn, A::Error> {
        use serde::de::VariantAccess;
        let (_, variant) = a.variant::<Dyn>()?;
        variant.unit_variant()?;
        Ok(Dyn)
    }
}

thread_local! {
    /// The schema the next `Guided` target follows (a `Deserialize` type cannot be handed one).
    static GUIDE: std::cell::RefCell<Option<(S, crate::ast::Env)>> = const { std::cell::RefCell::new(None) };
}

/// A target shaped like the Rust type a user would write for the schema: wherever the schema has a
/// two-branch union with `null` it asks for `deserialize_option` (an `Option<T>` field), otherwise it
/// follows the schema through `deserialize_any`. Only "accepted, and how many bytes" is observed.
pub struct Guided;

impl<'de> serde::Deserialize<'de> for Guided {
    fn deserialize<D: serde::Deserializer<'de>>(d: D) -> Result<Guided, D::Error> {
        GUIDE.with(|g| {
            let g = g.borrow();
            let (s, env) = g.as_ref().expect("guide set");
            serde::de::DeserializeSeed::deserialize(GSeed { s, env }, d).map(|_| Guided)
        })
    }
}

#[derive(Clone, Copy)]
struct GSeed<'a> {
    s: &'a S,
    env: &'a crate::ast::Env,
}

impl<'de> serde::de::DeserializeSeed<'de> for GSeed<'_> {
    type Value = ();
    fn deserialize<D: serde::Deserializer<'de>>(self, d: D) -> Result<(), D::Error> {
        match self.s {
            S::Ref(n) => match self.env.get(n) {
                Some(t) => GSeed { s: t, env: self.env }.deserialize(d),
                None => <Dyn as serde::Deserialize>::deserialize(d).map(|_| ()),
            },
            S::Union(bs) if bs.len() == 2 && bs.iter().any(|b| matches!(b, S::Null)) => d.deserialize_option(self),
            S::Array(_) | S::Map(_) | S::Record { .. } => d.deserialize_any(self),
            _ => <Dyn as serde::Deserialize>::deserialize(d).map(|_| ()),
        }
    }
}

macro_rules! unit_scalar {
    ($($f:ident: $t:ty),*) => { $(fn $f<E: serde::de::Error>(self, _: $t) -> Result<(), E> { Ok(()) })* };
}

impl<'de> serde::de::Visitor<'de> for GSeed<'_> {
    type Value = ();
    fn expecting(&self, f: &mut std::fmt::Formatter) -> std::fmt::Result {
        f.write_str("what the schema says")
    }
    unit_scalar!(visit_bool: bool, visit_i64: i64, visit_u64: u64, visit_i128: i128, visit_u128: u128, visit_f32: f32, visit_f64: f64, visit_char: char, visit_str: &str, visit_bytes: &[u8]);
    fn visit_none<E: serde::de::Error>(self) -> Result<(), E> {
        Ok(())
    }
    fn visit_unit<E: serde::de::Error>(self) -> Result<(), E> {
        Ok(())
    }
    fn visit_some<D: serde::Deserializer<'de>>(self, d: D) -> Result<(), D::Error> {
        use serde::de::DeserializeSeed;
        match self.s {
            S::Union(bs) => match bs.iter().find(|b| !matches!(b, S::Null)) {
                Some(other) => GSeed { s: other, env: self.env }.deserialize(d),
                None => <Dyn as serde::Deserialize>::deserialize(d).map(|_| ()),
            },
            _ => <Dyn as serde::Deserialize>::deserialize(d).map(|_| ()),
        }
    }
    fn visit_seq<A: serde::de::SeqAccess<'de>>(self, mut a: A) -> Result<(), A::Error> {
        match self.s {
            S::Array(items) => while a.next_element_seed(GSeed { s: items, env: self.env })?.is_some() {},
            S::Record { fields, .. } => {
                for f in fields {
                    if a.next_element_seed(GSeed { s: &f.ty, env: self.env })?.is_none() {
                        break;
                    }
                }
            }
            _ => while a.next_element::<Dyn>()?.is_some() {},
        }
        Ok(())
    }
    fn visit_map<A: serde::de::MapAccess<'de>>(self, mut a: A) -> Result<(), A::Error> {
        match self.s {
            S::Map(values) => {
                while a.next_key::<Dyn>()?.is_some() {
                    a.next_value_seed(GSeed { s: values, env: self.env })?;
                }
            }
            S::Record { fields, .. } => {
                let mut i = 0;
                while a.next_key::<Dyn>()?.is_some() {
                    match fields.get(i) {
                        Some(f) => a.next_value_seed(GSeed { s: &f.ty, env: self.env })?,
                        None => a.next_value::<Dyn>().map(|_| ())?,
                    }
                    i += 1;
                }
            }
            _ => while a.next_entry::<Dyn, Dyn>()?.is_some() {},
        }
        Ok(())
    }
}

/// Whether `s` has a two-branch nullable union anywhere (the only place `Guided` differs from `Dyn`).
fn has_option(s: &S, env: &crate::ast::Env, depth: usize) -> bool {
    if depth > 6 {
        return false;
    }
    match s {
        S::Union(bs) => (bs.len() == 2 && bs.iter().any(|b| matches!(b, S::Null))) || bs.iter().any(|b| has_option(b, env, depth + 1)),
        S::Array(x) | S::Map(x) | S::Logical(_, x) => has_option(x, env, depth + 1),
        S::Record { fields, .. } => fields.iter().any(|f| has_option(&f.ty, env, depth + 1)),
        S::Ref(n) => env.get(n).is_some_and(|t| has_option(t, env, depth + 1)),
        _ => false,
    }
}

/// Bytes the schema-aware deserializer consumes for one datum when the target asks for `Option`s.
fn guided_decode(sc: &Sc, schema: &apache_avro::Schema, bytes: &[u8]) -> Result<usize, String> {
    GUIDE.with(|g| *g.borrow_mut() = Some((sc.s.clone(), sc.env.clone())));
    match guarded(|| {
        let r = apache_avro::reader::datum::GenericDatumReader::builder(schema).build()?;
        let mut cur: &[u8] = bytes;
        r.read_deser::<Guided>(&mut cur)?;
        Ok::<_, apache_avro::Error>(bytes.len() - cur.len())
    }) {
        Ok(Ok(n)) => Ok(n),
        Ok(Err(e)) => Err(format!("error: {e}")),
        Err(p) => Err(format!("panic: {p}")),
    }
}

/// Longest byte-universe string the deserializer clause is applied to (3 quick, 4 thorough).
static DESER_BU_LEN: std::sync::atomic::AtomicUsize = std::sync::atomic::AtomicUsize::new(3);

fn deser_bu_len() -> usize {
    DESER_BU_LEN.load(std::sync::atomic::Ordering::Relaxed)
}

/// Bytes the schema-aware deserializer consumes for one datum, or its error.
pub fn deser_decode(schema: &apache_avro::Schema, bytes: &[u8]) -> Result<usize, String> {
    match guarded(|| {
        let r = apache_avro::reader::datum::GenericDatumReader::builder(schema).build()?;
        let mut cur: &[u8] = bytes;
        r.read_deser::<Dyn>(&mut cur)?;
        Ok::<_, apache_avro::Error>(bytes.len() - cur.len())
    }) {
        Ok(Ok(n)) => Ok(n),
        Ok(Err(e)) => Err(format!("error: {e}")),
        Err(p) => Err(format!("panic: {p}")),
    }
}

fn deser_decode_chunked(schema: &apache_avro::Schema, bytes: &[u8], chunk: usize) -> Result<usize, String> {
    match guarded(|| {
        let r = apache_avro::reader::datum::GenericDatumReader::builder(schema).build()?;
        let mut src = crate::c01::ChunkReader { data: bytes, pos: 0, chunk };
        r.read_deser::<Dyn>(&mut src)?;
        Ok::<_, apache_avro::Error>(src.pos)
    }) {
        Ok(Ok(n)) => Ok(n),
        Ok(Err(e)) => Err(format!("error: {e}")),
        Err(p) => Err(format!("panic: {p}")),
    }
}

/// The clause "the two decoders agree on whether a byte string is a complete datum", judged on framing:
/// a truncated datum is an error for both; a datum the strict reference decoder and the generic decoder
/// accept is accepted by the deserializer with the same length; two Ok verdicts consume the same bytes.
/// Inputs only one of them rejects for its *content* (UUID text, big-decimal payload) give no verdict.
fn judge_deser(sc: &Sc, schema: &apache_avro::Schema, bytes: &[u8], origin: &str, vi: usize, generic: &Result<(apache_avro::types::Value, usize), String>, de: &Result<usize, String>, ignored_ok: bool, strict: &Result<V, DecErr>, strict_len: usize, st: &mut Stats) {
    st.transitions += 1;
    let order = 1u64 << 60 | (sc.idx as u64) << 32 | vi as u64;
    let failed: Option<&str> = match (de, generic, strict) {
        (Err(e), _, _) if e.starts_with("panic") => None, // C05's subject
        (Ok(_), _, Err(DecErr::Eof)) => Some("input is a truncated datum but the schema-aware deserializer returned Ok"),
        (Ok(dn), Ok((_, gn)), _) if dn != gn => Some("generic decoder and schema-aware deserializer consume different lengths for the same input"),
        (Err(_), Ok((_, gn)), Ok(_)) if *gn == strict_len => Some("a complete datum (reference decoder and generic decoder agree) is rejected by the schema-aware deserializer"),
        _ => None,
    };
    // a truncated datum is an error for a target that ignores the data as well
    let failed = match (failed, strict) {
        (None, Err(DecErr::Eof)) if ignored_ok => Some("input is a truncated datum but the schema-aware deserializer returned Ok for a target that ignores the data (IgnoredAny)"),
        (f, _) => f,
    };
    // what the deserializer accepts from a slice it must accept, with the same length, from a source that
    // delivers one byte per read
    let failed = match (failed, de) {
        (None, Ok(dn)) => {
            st.transitions += 1;
            match deser_decode_chunked(schema, bytes, 1) {
                Ok(n) if n == *dn => None,
                _ => Some("the schema-aware deserializer reads a datum from a slice but not from a source that delivers one byte per read"),
            }
        }
        (f, _) => f,
    };
    match failed {
        None => st.outcome(if de.is_ok() { "deser-ok-agrees" } else { "deser-err" }),
        Some(clause) => {
            st.outcome("violation:decoders-disagree");
            st.violate(
                order,
                clause,
                json!({"schema": sc.json, "bytes": hex(bytes), "origin": origin, "generic_decoder": ev::trunc(&format!("{generic:?}"), 200), "schema_aware_deserializer": format!("{de:?}"), "strict_reference": ev::trunc(&format!("{strict:?}"), 200), "reference_consumed": strict_len}),
                json!({"schema_idx": sc.idx, "value_idx": vi, "schema": sc.json, "bytes": hex(bytes)}),
            );
        }
    }
}

fn judge(sc: &Sc, schema: &apache_avro::Schema, bytes: &[u8], origin: &str, vi: usize, st: &mut Stats) {
    let order = (sc.idx as u64) << 32 | vi as u64;
    st.states += 1;
    st.evaluations += 1;
    st.transitions += 1;
    let lib = lib_decode(schema, bytes);
    // the deserializer visits zero-width items one by one up to the allocation limit per block (about 1 us
    // each), so its clause is applied to every truncation/substitution of valid data and to the byte
    // universe up to length 3 (quick) / 4 (thorough)
    let de = if origin != "BU" || bytes.len() <= deser_bu_len() { Some(deser_decode(schema, bytes)) } else { None };
    // a third target: one that ignores what it is shown (serde's IgnoredAny, as for a struct that omits a
    // field) goes through deserialize_ignored_any
    let ignored_ok = de.is_some() && {
        st.transitions += 1;
        matches!(
            guarded(|| {
                let r = apache_avro::reader::datum::GenericDatumReader::builder(schema).build()?;
                let mut cur: &[u8] = bytes;
                r.read_deser::<serde::de::IgnoredAny>(&mut cur).map(|_| ())
            }),
            Ok(Ok(()))
        )
    };
    // a fourth target: one shaped like the user's Rust type, asking for an `Option` wherever the schema has a
    // two-branch nullable union. It is the same deserializer over the same bytes: what it accepts, the
    // target that follows the schema through deserialize_any accepts too, with the same length.
    if let Some(de) = &de {
        if has_option(&sc.s, &sc.env, 0) {
            st.transitions += 1;
            let gd = guided_decode(sc, schema, bytes);
            let failed = match (&gd, de) {
                (Ok(_), Err(e)) if !e.starts_with("panic") => Some("the schema-aware deserializer accepts for an Option-shaped target bytes it rejects for a target that follows the schema"),
                (Ok(a), Ok(b)) if a != b => Some("the schema-aware deserializer consumes different lengths for an Option-shaped target and a target that follows the schema"),
                (Err(e), Ok(_)) if !e.starts_with("panic") => Some("the schema-aware deserializer rejects for an Option-shaped target a datum it accepts for a target that follows the schema"),
                _ => None,
            };
            match failed {
                None => st.outcome(if gd.is_ok() { "deser-option-target-ok-agrees" } else { "deser-option-target-err" }),
                Some(clause) => {
                    st.outcome("violation:decoders-disagree");
                    st.violate(
                        2u64 << 60 | (sc.idx as u64) << 32 | vi as u64,
                        clause,
                        json!({"schema": sc.json, "bytes": hex(bytes), "origin": origin, "generic_decoder": ev::trunc(&format!("{lib:?}"), 200), "deserializer_any_target": format!("{de:?}"), "deserializer_option_target": format!("{gd:?}")}),
                        json!({"schema_idx": sc.idx, "value_idx": vi, "schema": sc.json, "bytes": hex(bytes)}),
                    );
                }
            }
        }
    }
    if lib.is_err() && !matches!(de, Some(Ok(_))) && !ignored_ok {
        // both decoders reject: nothing to judge (and the reference decoder is not run on hostile counts)
        if de.is_some() {
            st.transitions += 1;
            st.outcome("deser-err");
        }
        st.outcome(if matches!(&lib, Err(e) if e.starts_with("panic")) { "panic(C05)" } else { "err" });
        return;
    }
    // strict reference verdict on the same input
    let mut c = Cur::new(bytes);
    let strict = refbin::decode(&mut c, &sc.s, &sc.env);
    if let Some(de) = &de {
        judge_deser(sc, schema, bytes, origin, vi, &lib, de, ignored_ok, &strict, c.pos.min(bytes.len()), st);
    }
    let (lv, ln) = match lib {
        Ok(x) => x,
        Err(e) => {
            if e.starts_with("panic") {
                st.outcome("panic(C05)");
            } else {
                st.outcome("err");
            }
            return;
        }
    };
    let case = |extra: serde_json::Value| json!({"schema": sc.json, "bytes": hex(bytes), "origin": origin, "library_value": ev::trunc(&format!("{lv:?}"), 300), "consumed": ln, "detail": extra});
    let replay = json!({"schema_idx": sc.idx, "value_idx": vi, "schema": sc.json, "bytes": hex(bytes)});
    let truncated = matches!(strict, Err(DecErr::Eof));
    // oracle clauses
    let validates = guarded(|| lv.validate(schema)).unwrap_or(false);
    let reenc = lib_encode(schema, &lv, true);
    st.transitions += 2;
    let redec_same = match &reenc {
        Ok(b) => match lib_decode(schema, b) {
            Ok((v2, n2)) => n2 == b.len() && veq(&raw(&v2).canon(), &raw(&lv).canon()),
            Err(_) => false,
        },
        Err(_) => false,
    };
    let mut failed: Vec<&str> = vec![];
    if !validates {
        failed.push("decoded value does not validate against the schema");
    }
    if reenc.is_err() {
        failed.push("re-encoding the decoded value fails");
    } else if !redec_same {
        failed.push("decoding the re-encoded bytes gives a different value");
    }
    if truncated {
        failed.push("input is a truncated datum (reference decoder ran out of input) but decoding returned Ok");
    }
    if failed.is_empty() {
        st.outcome("ok-conforming");
        st.class(format!("{}|{}", sc.s.shape(&sc.env, 3), ln));
        st.sample(|| json!({"schema": sc.json, "bytes": hex(bytes), "decoded": ev::trunc(&format!("{lv:?}"), 200)}));
        return;
    }
    // re-judge under the recorded deviations: the lenient model must reproduce the library exactly
    let mut lc = Cur::lenient(bytes);
    let len = refbin::decode(&mut lc, &sc.s, &sc.env);
    let devs = lc.dev.clone().unwrap_or_default();
    match len {
        Ok(dv) if !devs.is_empty() && lc.pos.min(bytes.len()) == ln && veq(&dv.canon(), &raw(&lv).canon()) => {
            st.outcome("known-deviation");
            for d in devs {
                st.deviation(d, || case(json!({"failed_clauses": failed})));
            }
        }
        other => {
            st.outcome("violation");
            st.violate(order, failed[0], case(json!({"failed_clauses": failed, "strict_reference": format!("{strict:?}"), "lenient_reference": ev::trunc(&format!("{other:?}"), 300), "lenient_consumed": lc.pos})), replay);
        }
    }
}

#[allow(dead_code)]
fn unused(v: &V, sc: &Sc) {
    let _ = to_lib(v, &sc.s, &sc.env);
}
