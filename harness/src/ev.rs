//! Evidence, verdicts, known findings, replay files.

use serde_json::{json, Value as J};
use std::collections::{BTreeMap, BTreeSet};
use std::time::Instant;

pub const VERIF_DIR: &str = "/verif";

#[derive(Clone, Copy, PartialEq, Debug)]
pub enum Tier {
    Quick,
    Thorough,
}

impl Tier {
    pub fn name(self) -> &'static str {
        match self {
            Tier::Quick => "quick",
            Tier::Thorough => "thorough",
        }
    }
}

#[derive(Clone, Debug)]
pub struct Violation {
    /// position in the deterministic enumeration (for minimality: smallest first)
    pub order: u64,
    /// oracle clause that failed
    pub clause: String,
    /// the case, written out
    pub case: J,
    /// how to re-run exactly this case
    pub replay: J,
}

/// Per-thread statistics; merged at the end.
#[derive(Default, Clone)]
pub struct Stats {
    pub states: u64,
    pub transitions: u64,
    pub evaluations: u64,
    pub classes: BTreeSet<String>,
    pub outcomes: BTreeMap<String, u64>,
    pub violations: Vec<Violation>,
    /// deviation name -> (count, first example)
    pub deviations: BTreeMap<String, (u64, J)>,
    pub caps: BTreeSet<String>,
    pub samples: Vec<J>,
    /// first example per violated clause (bounded), for diagnosis
    pub examples: BTreeMap<String, J>,
}

const MAX_VIOL_KEPT: usize = 40;

impl Stats {
    pub fn merge(mut self, o: Stats) -> Stats {
        self.states += o.states;
        self.transitions += o.transitions;
        self.evaluations += o.evaluations;
        self.classes.extend(o.classes);
        for (k, v) in o.outcomes {
            *self.outcomes.entry(k).or_insert(0) += v;
        }
        self.violations.extend(o.violations);
        self.violations.sort_by_key(|v| v.order);
        self.violations.truncate(MAX_VIOL_KEPT);
        for (k, (n, ex)) in o.deviations {
            let e = self.deviations.entry(k).or_insert((0, ex.clone()));
            e.0 += n;
        }
        self.caps.extend(o.caps);
        for (k, v) in o.examples {
            if self.examples.len() < 200 {
                self.examples.entry(k).or_insert(v);
            }
        }
        if self.samples.len() < 6 {
            self.samples.extend(o.samples.into_iter().take(2));
        }
        self
    }
    pub fn outcome(&mut self, k: &str) {
        *self.outcomes.entry(k.to_string()).or_insert(0) += 1;
    }
    pub fn class(&mut self, k: String) {
        if self.classes.len() < 200_000 {
            self.classes.insert(k);
        }
    }
    pub fn violate(&mut self, order: u64, clause: &str, case: J, replay: J) {
        if self.examples.len() < 200 && !self.examples.contains_key(clause) {
            self.examples.insert(clause.to_string(), case.clone());
        }
        if self.violations.len() < MAX_VIOL_KEPT || self.violations.iter().any(|v| v.order > order) {
            self.violations.push(Violation { order, clause: clause.to_string(), case, replay });
            self.violations.sort_by_key(|v| v.order);
            self.violations.truncate(MAX_VIOL_KEPT);
        }
    }
    pub fn deviation(&mut self, name: &str, example: impl FnOnce() -> J) {
        match self.deviations.get_mut(name) {
            Some(e) => e.0 += 1,
            None => {
                self.deviations.insert(name.to_string(), (1, example()));
            }
        }
    }
    pub fn sample(&mut self, j: impl FnOnce() -> J) {
        if self.samples.len() < 3 {
            self.samples.push(j());
        }
    }
}

pub struct Finding {
    pub id: String,
    pub property: String,
    pub status: String,
    pub what: String,
}

pub fn load_findings() -> Vec<Finding> {
    let path = format!("{VERIF_DIR}/known_findings.json");
    let text = match std::fs::read_to_string(&path) {
        Ok(t) => t,
        Err(_) => return vec![],
    };
    let j: J = match serde_json::from_str(&text) {
        Ok(j) => j,
        Err(e) => machinery(&format!("known_findings.json does not parse: {e}")),
    };
    let mut out = vec![];
    for f in j["findings"].as_array().cloned().unwrap_or_default() {
        out.push(Finding {
            id: f["id"].as_str().unwrap_or("").to_string(),
            property: f["property"].as_str().unwrap_or("").to_string(),
            status: f["status"].as_str().unwrap_or("").to_string(),
            what: f["what"].as_str().unwrap_or("").to_string(),
        });
    }
    out
}

pub fn machinery(msg: &str) -> ! {
    eprintln!("MACHINERY-FAILURE: {msg}");
    std::process::exit(2);
}

pub struct Report {
    pub id: String,
    pub tier: Tier,
    pub level: &'static str,
    pub rule: String,
    pub bounds: J,
    pub assumptions: Vec<String>,
    pub exhaustive: bool,
    pub extra: J,
}

/// Write evidence, replay files and the verdict lines; returns the process exit code.
pub fn finish(rep: Report, mut st: Stats, start: Instant) -> i32 {
    let findings = load_findings();
    let seed: i64 = std::env::var("VERIF_SEED").ok().and_then(|s| s.parse().ok()).unwrap_or(0);
    let id = rep.id.clone();

    // deviations: known (listed, status known) -> KNOWN-FINDING line; otherwise violation
    let mut known_lines = vec![];
    let mut unlisted = vec![];
    for (name, (count, example)) in &st.deviations {
        match findings.iter().find(|f| f.id == *name && f.property == id) {
            Some(f) if f.status == "known" => {
                known_lines.push(format!("KNOWN-FINDING: property={id} {name}: {} [{} case(s) this run]", f.what, count));
            }
            _ => unlisted.push((name.clone(), *count, example.clone())),
        }
    }
    for (name, count, example) in unlisted {
        st.violations.push(Violation {
            order: 0,
            clause: format!("deviation {name} (not listed as a known finding), {count} case(s)"),
            case: example.clone(),
            replay: example,
        });
    }

    let replay_dir = format!("{VERIF_DIR}/replays/{id}");
    let _ = std::fs::remove_dir_all(&replay_dir);
    let mut viol_lines = vec![];
    if !st.violations.is_empty() {
        std::fs::create_dir_all(&replay_dir).ok();
        for (i, v) in st.violations.iter().take(10).enumerate() {
            let path = format!("{replay_dir}/{i:03}.json");
            let body = json!({"property": id, "tier": rep.tier.name(), "clause": v.clause, "case": v.case, "replay": v.replay,
                "how": format!("./check {id} --replay {path}")});
            std::fs::write(&path, serde_json::to_string_pretty(&body).unwrap()).ok();
            viol_lines.push(format!("VIOLATION property={id} replay={path}"));
            eprintln!("violation[{i}] clause: {}\n  case: {}", v.clause, trunc(&v.case.to_string(), 1200));
        }
    }

    if std::env::var("VERIF_VERBOSE").is_ok() {
        for (k, v) in &st.examples {
            eprintln!("example[{k}]: {}", trunc(&v.to_string(), 1500));
        }
    }
    let exhaustive = rep.exhaustive && st.caps.is_empty();
    let vacuous = st.outcomes.len() <= 1 && st.evaluations > 10;
    let mut coverage = json!({
        "states": st.states,
        "transitions": st.transitions,
        "traces_validated_against_impl": st.evaluations,
        "evaluations": st.evaluations,
        "distinct_nontrivial": st.classes.len(),
        "rule": rep.rule,
        "samples": st.samples,
        "distinct_outcomes": st.outcomes.len(),
        "outcomes": st.outcomes,
        "bounds": rep.bounds,
        "exhaustive": exhaustive,
        "caps_hit": st.caps.iter().collect::<Vec<_>>(),
        "known_findings_exercised": st.deviations.iter().map(|(k, v)| json!({"id": k, "cases": v.0})).collect::<Vec<_>>(),
        "vacuous_warning": vacuous,
    });
    if let (Some(c), Some(e)) = (coverage.as_object_mut(), rep.extra.as_object()) {
        for (k, v) in e {
            c.insert(k.clone(), v.clone());
        }
    }
    let evidence = json!({
        "property_id": id,
        "tier": rep.tier.name(),
        "seed": seed,
        "level": rep.level,
        "coverage": coverage,
        "assumptions": rep.assumptions,
        "wall_s": start.elapsed().as_secs_f64(),
        "violations": st.violations.len(),
    });
    // runs against a deliberately broken tree (tools/run_seed.sh) must not overwrite the evidence of the
    // real tree: they redirect it
    let dir = std::env::var("VERIF_EVIDENCE_DIR").unwrap_or_else(|_| format!("{VERIF_DIR}/evidence"));
    std::fs::create_dir_all(&dir).ok();
    let path = format!("{dir}/{id}.json");
    if let Err(e) = std::fs::write(&path, serde_json::to_string_pretty(&evidence).unwrap()) {
        machinery(&format!("cannot write {path}: {e}"));
    }

    for l in &known_lines {
        println!("{l}");
    }
    println!(
        "{id} {}: states={} transitions={} executions={} distinct_nontrivial={} outcomes={} exhaustive={} wall={:.1}s",
        rep.tier.name(),
        st.states,
        st.transitions,
        st.evaluations,
        st.classes.len(),
        st.outcomes.len(),
        exhaustive,
        start.elapsed().as_secs_f64()
    );
    if viol_lines.is_empty() {
        println!("OK property={id}");
        0
    } else {
        for l in &viol_lines {
            println!("{l}");
        }
        1
    }
}

pub fn trunc(s: &str, n: usize) -> String {
    if s.len() <= n {
        s.to_string()
    } else {
        let mut end = n;
        while !s.is_char_boundary(end) {
            end -= 1;
        }
        format!("{}…", &s[..end])
    }
}

// ---------------------------------------------------------------------------------------------
// Watchdog for in-process checks whose property says "never hangs": each case registers itself while it
// runs; a monitor thread reports the first case that stays registered for longer than the budget of CPU
// time of the whole process divided by the worker count would explain (wall time alone is stretched by an
// oversubscribed machine), writes it as a replay file and ends the run with a VIOLATION.

static WATCH: std::sync::Mutex<Option<std::collections::HashMap<u64, (std::time::Instant, String)>>> = std::sync::Mutex::new(None);
static WATCH_NEXT: std::sync::atomic::AtomicU64 = std::sync::atomic::AtomicU64::new(1);

pub struct WatchGuard(u64);

impl Drop for WatchGuard {
    fn drop(&mut self) {
        if let Ok(mut g) = WATCH.lock() {
            if let Some(m) = g.as_mut() {
                m.remove(&self.0);
            }
        }
    }
}

/// Register the case a worker is about to run (no-op until `start_watchdog` was called).
pub fn watch(describe: impl FnOnce() -> String) -> WatchGuard {
    let id = WATCH_NEXT.fetch_add(1, std::sync::atomic::Ordering::Relaxed);
    if let Ok(mut g) = WATCH.lock() {
        if let Some(m) = g.as_mut() {
            m.insert(id, (std::time::Instant::now(), describe()));
        }
    }
    WatchGuard(id)
}

fn process_cpu_seconds() -> f64 {
    // utime + stime of /proc/self/stat (fields 14 and 15 after the parenthesised command), in clock ticks
    let stat = std::fs::read_to_string("/proc/self/stat").unwrap_or_default();
    let rest = stat.rsplit(')').next().unwrap_or("");
    let f: Vec<&str> = rest.split_whitespace().collect();
    let ticks: f64 = f.get(11).and_then(|x| x.parse::<f64>().ok()).unwrap_or(0.0) + f.get(12).and_then(|x| x.parse::<f64>().ok()).unwrap_or(0.0);
    ticks / 100.0
}

/// A case counts as hung when it has been running for `wall_s` seconds AND the process burnt at least
/// `cpu_s` seconds of CPU meanwhile (so a starved machine alone never triggers it).
pub fn start_watchdog(id: &'static str, clause: &'static str, wall_s: u64, cpu_s: f64) {
    *WATCH.lock().unwrap() = Some(std::collections::HashMap::new());
    std::thread::spawn(move || {
        let mut suspect: Option<(u64, f64)> = None;
        loop {
            std::thread::sleep(std::time::Duration::from_millis(500));
            let oldest = WATCH.lock().ok().and_then(|g| g.as_ref().and_then(|m| m.iter().min_by_key(|(_, (t, _))| *t).map(|(k, (t, d))| (*k, t.elapsed().as_secs(), d.clone()))));
            let Some((k, age, text)) = oldest else { continue };
            if age < wall_s {
                suspect = None;
                continue;
            }
            let cpu = process_cpu_seconds();
            match suspect {
                Some((sk, c0)) if sk == k => {
                    if cpu - c0 >= cpu_s {
                        let dir = format!("{VERIF_DIR}/replays/{id}");
                        std::fs::create_dir_all(&dir).ok();
                        let path = format!("{dir}/hang.json");
                        let j = serde_json::json!({"property": id, "clause": clause, "case": {"text": text, "running_for_s": age}, "replay": {"text": text}, "tier": "quick", "how": format!("./check {id} --replay {path}")});
                        std::fs::write(&path, serde_json::to_string_pretty(&j).unwrap()).ok();
                        eprintln!("violation[0] clause: {clause}\n  case: {}", trunc(&text, 600));
                        println!("VIOLATION property={id} replay={path}");
                        std::process::exit(1);
                    }
                }
                _ => suspect = Some((k, cpu)),
            }
        }
    });
}

pub fn hex(b: &[u8]) -> String {
    b.iter().map(|x| format!("{x:02x}")).collect::<Vec<_>>().join(" ")
}

pub fn unhex(s: &str) -> Vec<u8> {
    s.split_whitespace().map(|x| u8::from_str_radix(x, 16).unwrap()).collect()
}

/// Run a closure catching panics; Err carries the panic message.
pub fn guarded<T>(f: impl FnOnce() -> T) -> Result<T, String> {
    match std::panic::catch_unwind(std::panic::AssertUnwindSafe(f)) {
        Ok(v) => Ok(v),
        Err(e) => {
            let msg = if let Some(s) = e.downcast_ref::<&str>() {
                s.to_string()
            } else if let Some(s) = e.downcast_ref::<String>() {
                s.clone()
            } else {
                "panic".to_string()
            };
            Err(msg)
        }
    }
}

pub fn quiet_panics() {
    std::panic::set_hook(Box::new(|_| {}));
}
