#!/bin/bash
# run_seed.sh <seed-dir-name> <tier> <ID> [<ID>...] : apply seeded patch to /repo, run checks, always revert.
seed=$1; tier=$2; shift 2
# evidence of runs against a broken tree goes to a scratch directory, never to /verif/evidence
export VERIF_EVIDENCE_DIR=/verif/replays/seed_evidence; mkdir -p $VERIF_EVIDENCE_DIR
cd /repo && git diff --quiet || { echo "/repo not clean"; exit 2; }
git -C /repo apply /verif/seeded/$seed/patch.diff || { echo "patch does not apply"; exit 2; }
trap 'git -C /repo checkout -- .; git -C /repo clean -fdq avro/src avro_derive/src' EXIT
for id in "$@"; do
  out=$(cd /verif && ./check $id $tier 2>&1); rc=$?
  echo "== seed=$seed check=$id rc=$rc : $(echo "$out" | grep -E '^(VIOLATION|OK|MACHINERY)' | head -2 | tr '\n' ' ')"
  echo "$out" | grep -E "^violation\[0\]" -A1 | cut -c1-600
done
