#!/usr/bin/env python3
"""Line-oriented codec oracle (python stdlib + the zstd CLI).
Request : <op> <codec> <level> <hex-payload>      op in {c, d}; codec in {deflate, bzip2, xz, zstandard}
Response: OK <hex>   |   ERR <message>
deflate = raw RFC 1951 stream (zlib wbits=-15); bzip2 / xz = standard streams; zstandard via the `zstd` CLI.
"""
import os, sys, zlib, bz2, lzma, subprocess, shutil

# the CLI may live outside PATH (in this sandbox it is conda's)
ZSTD = shutil.which("zstd") or next((p for p in ("/usr/bin/zstd", "/usr/local/bin/zstd", "/root/miniconda/bin/zstd", "/opt/conda/bin/zstd") if os.path.exists(p)), None)

def run(op, codec, level, data):
    if codec == "deflate":
        if op == "c":
            co = zlib.compressobj(min(9, level) if level >= 0 else -1, zlib.DEFLATED, -15)
            return co.compress(data) + co.flush()
        do = zlib.decompressobj(-15)
        out = do.decompress(data) + do.flush()
        if not do.eof:
            raise ValueError("deflate stream not terminated")
        if do.unused_data:
            raise ValueError("trailing data after deflate stream")
        return out
    if codec == "bzip2":
        if op == "c":
            return bz2.compress(data, max(1, min(9, level)))
        return bz2.decompress(data)
    if codec == "xz":
        if op == "c":
            return lzma.compress(data, format=lzma.FORMAT_XZ, preset=max(0, min(9, level)))
        return lzma.decompress(data, format=lzma.FORMAT_XZ)
    if codec == "zstandard":
        if ZSTD is None:
            raise RuntimeError("NOZSTD")
        args = [ZSTD, "-q", "-c"] + (["-%d" % max(1, min(19, level))] if op == "c" else ["-d"])
        p = subprocess.run(args, input=data, stdout=subprocess.PIPE, stderr=subprocess.PIPE)
        if p.returncode != 0:
            raise ValueError(p.stderr.decode(errors="replace").strip())
        return p.stdout
    raise ValueError("unknown codec " + codec)

for line in sys.stdin:
    parts = line.split()
    if len(parts) < 3:
        print("ERR bad request"); sys.stdout.flush(); continue
    op, codec, level = parts[0], parts[1], int(parts[2])
    data = bytes.fromhex(parts[3]) if len(parts) > 3 else b""
    try:
        print("OK " + run(op, codec, level, data).hex())
    except Exception as e:  # noqa
        print("ERR " + str(e).replace("\n", " ")[:200])
    sys.stdout.flush()
