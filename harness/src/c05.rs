//! C05: decoding untrusted bytes never panics, aborts, hangs or over-allocates.
//! Sweeps run in isolated worker processes (one allocation limit per process, because the limit
//! is a write-once process-wide setting) under a counting allocator; the parent watches a shared
//! progress word, so an abort, a hang or an over-allocation is attributed to one input.

use crate::alloc;
use crate::c03::codecs;
use crate::c06::{byte_universe, mutations, B};
use crate::corpus;
use crate::ev::{self, guarded, hex, Report, Stats, Tier, Violation};
use crate::refbin;
use crate::val;
use apache_avro::reader::datum::GenericDatumReader;
use apache_avro::types::Value;
use apache_avro::{Codec, GenericSingleObjectReader, Reader, Schema, Writer};
use serde_json::{json, Value as J};
use std::collections::BTreeSet;
use std::io::Read;
use std::process::{Command, Stdio};
use std::time::{Duration, Instant};

// ------------------------------------------------------------------------------------------
// shared progress word (mmap of a small file)

pub struct Progress {
    ptr: *mut u64,
}

unsafe impl Send for Progress {}

impl Progress {
    pub fn open(path: &str, create: bool) -> Progress {
        use std::os::unix::io::AsRawFd;
        let f = std::fs::OpenOptions::new().read(true).write(true).create(create).truncate(false).open(path).unwrap_or_else(|e| ev::machinery(&format!("progress file {path}: {e}")));
        f.set_len(16).ok();
        let p = unsafe { libc::mmap(std::ptr::null_mut(), 16, libc::PROT_READ | libc::PROT_WRITE, libc::MAP_SHARED, f.as_raw_fd(), 0) };
        if p == libc::MAP_FAILED {
            ev::machinery("mmap of the progress file failed");
        }
        Progress { ptr: p as *mut u64 }
    }
    pub fn set(&self, v: u64) {
        unsafe { std::ptr::write_volatile(self.ptr, v) }
    }
    pub fn get(&self) -> u64 {
        unsafe { std::ptr::read_volatile(self.ptr) }
    }
}

// ------------------------------------------------------------------------------------------
// units of work

#[derive(Clone, Debug)]
pub enum Unit {
    /// datum-level entry points for one schema of the corpus
    Datum(usize),
    /// container reader on damaged copies of one valid file (codec index)
    Container(usize),
    /// container reader on hostile headers
    Headers,
    /// block decompression per codec
    Codec(usize),
}

pub fn units(tier: Tier, limit_class: usize) -> Vec<Unit> {
    let depth = 2;
    let n = corpus::build(depth, false).len();
    let mut out = vec![];
    for i in 0..n {
        // the 64 KiB configuration sweeps every schema; the others a stride (quick) or all (thorough)
        if limit_class == 1 || tier == Tier::Thorough || i % 6 == 0 {
            out.push(Unit::Datum(i));
        }
    }
    for c in 0..codecs().len() {
        out.push(Unit::Container(c));
        out.push(Unit::Codec(c));
    }
    out.push(Unit::Headers);
    out
}

pub const LIMITS: [usize; 3] = [4 * 1024, 64 * 1024, 512 * 1024 * 1024];

fn bound_for(limit: usize, floor: usize) -> usize {
    // floor: fixed-size working buffers that do not depend on the data (the zstd decoder's
    // 128 KiB input buffer, BufReader capacities, hash-map growth of small maps); the bzip2
    // decoder (pure Rust in this build) needs up to 3.6 MB of working memory per stream,
    // a constant of the format that the allocation limit does not govern
    (3 * limit.max(64 * 1024)).max(floor)
}

struct Ctx {
    limit: usize,
    progress: Progress,
    st: Stats,
    unit: u64,
    k: u64,
    skip: BTreeSet<u64>,
    only: Option<u64>,
    case_file: String,
    describe_only: bool,
    floor: usize,
}

impl Ctx {
    /// Run one case. `f` returns a short outcome tag.
    fn case(&mut self, describe: &dyn Fn() -> J, f: &mut dyn FnMut() -> &'static str) {
        let id = self.unit << 32 | self.k;
        self.k += 1;
        if self.skip.contains(&id) {
            return;
        }
        if let Some(o) = self.only {
            if o != id {
                return;
            }
            // replay of one case: write it out before running it (it may hang or abort)
            std::fs::write(&self.case_file, describe().to_string()).ok();
            if self.describe_only {
                std::process::exit(0);
            }
        }
        self.progress.set(id);
        alloc::reset_max();
        let r = guarded(|| f());
        let max = alloc::max_request();
        self.st.states += 1;
        self.st.evaluations += 1;
        self.st.transitions += 1;
        match r {
            Err(p) => {
                let c = describe();
                let dev = deviation(&c, "panic");
                match dev {
                    Some(d) => {
                        self.st.outcome("known-deviation");
                        self.st.deviation(d, || json!({"case": c, "panic": p}));
                    }
                    None => {
                        self.st.outcome("violation:panic");
                        let clause = format!("reading untrusted bytes panicked [{}]: {}", c["entry"].as_str().unwrap_or(""), ev::trunc(&p, 60));
                        self.st.violate(id, &clause, json!({"case": c, "panic": p, "allocation_limit": self.limit}), json!({"case_id": id, "limit": self.limit}));
                    }
                }
            }
            Ok(tag) => {
                if max > bound_for(self.limit, self.floor) {
                    let c = describe();
                    match deviation(&c, "over-allocation") {
                        Some(d) => {
                            self.st.outcome("known-deviation");
                            self.st.deviation(d, || json!({"case": c, "largest_request": max, "allocation_limit": self.limit}));
                        }
                        None => {
                            self.st.outcome("violation:over-allocation");
                            let clause = format!("a single allocation request exceeds three times the configured maximum [{}]", c["entry"].as_str().unwrap_or(""));
                            self.st.violate(id, &clause, json!({"case": c, "largest_request": max, "allocation_limit": self.limit, "bound": bound_for(self.limit, self.floor)}), json!({"case_id": id, "limit": self.limit}));
                        }
                    }
                } else {
                    self.st.outcome(tag);
                    if tag != "err" && self.st.samples.len() < 2 && self.k % 97 == 0 {
                        let c = describe();
                        self.st.sample(|| json!({"case": c, "outcome": tag, "largest_request": max, "allocation_limit": self.limit}));
                    }
                    if tag != "err" {
                        self.st.class(format!("{}|{}|{}", self.unit, tag, max / 1024));
                    }
                }
            }
        }
    }
}

/// Recorded deviations by input pattern.
fn deviation(case: &J, kind: &str) -> Option<&'static str> {
    let _ = (case, kind);
    None
}

fn read_all_container(bytes: &[u8]) -> &'static str {
    match Reader::new(bytes) {
        Err(_) => "err",
        Ok(r) => {
            let mut n = 0;
            let mut errs = 0;
            for item in r {
                match item {
                    Ok(_) => n += 1,
                    Err(_) => errs += 1,
                }
                if n > 10_000 {
                    break;
                }
            }
            if errs > 0 {
                "values-then-error"
            } else if n > 0 {
                "values"
            } else {
                "empty"
            }
        }
    }
}

fn read_all_container_deser(bytes: &[u8]) -> &'static str {
    match Reader::new(bytes) {
        Err(_) => "err",
        Ok(r) => {
            // like `for x in iter.filter_map(Result::ok)`: pulling goes on after an error (a bounded number
            // of times: an iterator that repeats its error for ever is an unbounded loop for such a caller)
            let (mut n, mut errs) = (0, 0);
            for item in r.into_deser_iter::<serde::de::IgnoredAny>() {
                match item {
                    Ok(_) => n += 1,
                    Err(_) => errs += 1,
                }
                if errs > 100 {
                    panic!("the typed container iterator keeps yielding errors: a caller that skips errors never terminates");
                }
                if n > 10_000 {
                    break;
                }
            }
            if errs > 0 { "values-then-error" } else { "values" }
        }
    }
}

fn unit_datum(cx: &mut Ctx, si: usize, tier: Tier) {
    let corpus = corpus::build(2, false);
    let sc = &corpus[si];
    let Ok(schema) = corpus::parse_lib(&sc.text) else { return };
    let reader = match GenericDatumReader::builder(&schema).build() {
        Ok(r) => r,
        Err(_) => return,
    };
    let so = GenericSingleObjectReader::builder().schema(schema.clone()).build().ok();
    let header: Vec<u8> = {
        let mut h = vec![];
        if let Ok(mut w) = apache_avro::GenericSingleObjectWriter::new_with_capacity(&schema, 16) {
            let v = val::values_min(&sc.s, &sc.env);
            if let Some(v) = v.first() {
                let _ = w.write_value_ref(&val::to_lib(v, &sc.s, &sc.env), &mut h);
            }
        }
        h.truncate(10);
        h
    };
    let mut inputs: Vec<Vec<u8>> = byte_universe(if tier == Tier::Quick { 4 } else { 5 });
    // hostile lengths / counts at full width
    for lead in [vec![], vec![0x02u8], vec![0x00]] {
        for big in [i64::MAX, i64::MIN, 1 << 40, -(1 << 40), (1 << 31) + 1, 1 << 20, -(1 << 20), 70_000, 5_000] {
            let mut x = lead.clone();
            x.extend(refbin::long_bytes(big));
            x.extend_from_slice(&[0, 0, 0, 0]);
            inputs.push(x.clone());
            // count followed by a byte size (negative-count form)
            let mut y = lead.clone();
            y.extend(refbin::long_bytes(big));
            y.extend(refbin::long_bytes(big));
            y.extend_from_slice(&[0, 0]);
            inputs.push(y);
        }
    }
    // collections split over many blocks, each block within the limit but the sum far above it
    if let crate::ast::S::Array(item) | crate::ast::S::Map(item) = &sc.s {
        let is_map = matches!(sc.s, crate::ast::S::Map(_));
        if let Some(minv) = val::values_min(item, &sc.env).first() {
            let mut one = if is_map { vec![0x02, b'k'] } else { vec![] };
            one.extend(refbin::encode(minv, item, &sc.env));
            if one.len() <= 3 {
                let per_block = (cx.limit / 64).clamp(1, 20_000);
                for blocks in [2usize, 40, 400] {
                    if per_block * blocks * one.len().max(1) > 4_000_000 {
                        continue;
                    }
                    let mut x = vec![];
                    for _ in 0..blocks {
                        x.extend(refbin::long_bytes(per_block as i64));
                        for _ in 0..per_block {
                            x.extend_from_slice(&one);
                        }
                    }
                    x.push(0);
                    inputs.push(x);
                }
            }
        }
    }
    let vals = val::values(&sc.s, &sc.env, 2, 0);
    let mut seen = BTreeSet::new();
    for v in &vals {
        let enc = refbin::encode(v, &sc.s, &sc.env);
        if enc.len() <= 40 {
            for m in mutations(&enc) {
                if seen.insert(m.clone()) {
                    inputs.push(m);
                }
            }
        }
    }
    for (i, input) in inputs.iter().enumerate() {
        let d = |entry: &'static str| {
            let sj = sc.json.clone();
            let inp = input.clone();
            move || json!({"entry": entry, "schema": sj, "bytes": hex(&inp)})
        };
        cx.case(&d("GenericDatumReader::read_value"), &mut || {
            let mut cur: &[u8] = input;
            if reader.read_value(&mut cur).is_ok() { "ok" } else { "err" }
        });
        cx.case(&d("GenericDatumReader::read_deser"), &mut || {
            let mut cur: &[u8] = input;
            if reader.read_deser::<serde::de::IgnoredAny>(&mut cur).is_ok() { "ok" } else { "err" }
        });
        if i % 8 == 0 {
            if let Some(so) = &so {
                let mut msg = header.clone();
                msg.extend_from_slice(input);
                cx.case(&d("GenericSingleObjectReader::read_value"), &mut || {
                    let mut cur: &[u8] = &msg;
                    if so.read_value(&mut cur).is_ok() { "ok" } else { "err" }
                });
            }
        }
    }
}

fn small_file(codec: Codec, schema_text: &str, values: &[Value]) -> Vec<u8> {
    let schema = Schema::parse_str(schema_text).expect("schema");
    let mut w = Writer::builder().schema(&schema).writer(Vec::new()).codec(codec).marker([3u8; 16]).build().expect("writer");
    for (i, v) in values.iter().enumerate() {
        w.append_value_ref(v).expect("append");
        if i == 0 {
            w.flush().expect("flush");
        }
    }
    w.into_inner().expect("into_inner")
}

fn unit_container(cx: &mut Ctx, ci: usize) {
    let (cname, codec) = codecs()[ci];
    let files = vec![
        small_file(codec, r#""string""#, &[Value::String("ab".into()), Value::String("c".into()), Value::String("".into())]),
        small_file(codec, r#"{"type":"array","items":"null"}"#, &[Value::Array(vec![Value::Null, Value::Null]), Value::Array(vec![])]),
    ];
    for (fi, file) in files.iter().enumerate() {
        let mut inputs: Vec<Vec<u8>> = vec![];
        for cut in 0..file.len() {
            inputs.push(file[..cut].to_vec());
        }
        for i in 0..file.len() {
            for b in B {
                if file[i] != b {
                    let mut x = file.clone();
                    x[i] = b;
                    inputs.push(x);
                }
            }
        }
        for input in &inputs {
            let d = |entry: &'static str| {
                let inp = input.clone();
                move || json!({"entry": entry, "codec": cname, "file": fi, "bytes": ev::trunc(&hex(&inp), 700)})
            };
            cx.case(&d("Reader (values)"), &mut || read_all_container(input));
            cx.case(&d("Reader (into_deser_iter)"), &mut || read_all_container_deser(input));
        }
    }
}

fn header_with(meta: &[(&str, Vec<u8>)], tail: &[u8]) -> Vec<u8> {
    let m: Vec<(String, Vec<u8>)> = meta.iter().map(|(k, v)| (k.to_string(), v.clone())).collect();
    let mut f = crate::refocf::write_header(&m, crate::refocf::MetaLayout::OneBlock, &[5u8; 16]);
    f.extend_from_slice(tail);
    f
}

fn unit_headers(cx: &mut Ctx) {
    let deep = |n: usize| format!("{}\"int\"{}", "{\"type\":\"array\",\"items\":".repeat(n), "}".repeat(n));
    let schemas: Vec<(String, String)> = vec![
        ("fixed-2^40".into(), r#"{"type":"fixed","name":"F","size":1099511627776}"#.into()),
        ("fixed-2^63".into(), r#"{"type":"fixed","name":"F","size":9223372036854775808}"#.into()),
        ("fixed-u64-max".into(), r#"{"type":"fixed","name":"F","size":18446744073709551615}"#.into()),
        ("fixed-1MiB".into(), r#"{"type":"fixed","name":"F","size":1048576}"#.into()),
        ("fixed-3MiB-in-array".into(), r#"{"type":"array","items":{"type":"fixed","name":"F","size":3145728}}"#.into()),
        ("decimal-fixed-2^40".into(), r#"{"type":"fixed","name":"D","size":1099511627776,"logicalType":"decimal","precision":4}"#.into()),
        ("decimal-precision-u64-max".into(), r#"{"type":"bytes","logicalType":"decimal","precision":18446744073709551615,"scale":0}"#.into()),
        ("deep-array-200".into(), deep(200)),
        ("duplicate-names".into(), r#"{"type":"record","name":"A","fields":[{"name":"f","type":{"type":"record","name":"A","fields":[]}}]}"#.into()),
        ("unresolved-ref".into(), r#"{"type":"record","name":"A","fields":[{"name":"f","type":"Nowhere"}]}"#.into()),
        ("array-of-null".into(), r#"{"type":"array","items":"null"}"#.into()),
        ("null".into(), r#""null""#.into()),
        ("string".into(), r#""string""#.into()),
        ("not-json".into(), "{".into()),
    ];
    // a data block: count, size, payload, marker
    let block = |count: i64, size: i64, payload: &[u8]| {
        let mut b = refbin::long_bytes(count);
        b.extend(refbin::long_bytes(size));
        b.extend_from_slice(payload);
        b.extend_from_slice(&[5u8; 16]);
        b
    };
    let tails: Vec<(String, Vec<u8>)> = vec![
        ("no-blocks".into(), vec![]),
        ("one-item-empty-payload".into(), block(1, 0, &[])),
        ("one-item-4-bytes".into(), block(1, 4, &[2, 0x61, 0, 0])),
        ("count-2^62-empty-payload".into(), block(1 << 62, 0, &[])),
        ("count-1-size-2^40".into(), block(1, 1 << 40, &[])),
        ("count-1-size-max".into(), block(1, i64::MAX, &[])),
        ("array-count-2^40-of-null".into(), block(1, 8, &{
            let mut p = refbin::long_bytes(1 << 40);
            p.resize(8, 0);
            p
        })),
        ("array-count-min".into(), block(1, 12, &{
            let mut p = refbin::long_bytes(i64::MIN);
            p.resize(12, 0);
            p
        })),
    ];
    for (sl, st) in &schemas {
        for (tl, tail) in &tails {
            for (cl, codec_meta) in [("no-codec", None), ("deflate", Some("deflate")), ("snappy", Some("snappy")), ("bogus", Some("lz77"))] {
                let mut meta: Vec<(&str, Vec<u8>)> = vec![("avro.schema", st.clone().into_bytes())];
                if let Some(c) = codec_meta {
                    meta.push(("avro.codec", c.as_bytes().to_vec()));
                }
                let f = header_with(&meta, tail);
                let d = || json!({"entry": "Reader", "embedded_schema": sl, "blocks": tl, "codec": cl, "bytes": ev::trunc(&hex(&f), 500)});
                cx.case(&d, &mut || read_all_container(&f));
                cx.case(&d, &mut || read_all_container_deser(&f));
            }
        }
    }
    // every shape of avro.codec.compression_level for the codecs that read it
    for codec in ["bzip2", "xz", "zstandard", "deflate", "snappy"] {
        for (ll, level) in [("empty", vec![]), ("0", vec![0u8]), ("255", vec![255]), ("two-bytes", vec![9, 9])] {
            let meta: Vec<(&str, Vec<u8>)> = vec![("avro.schema", br#""string""#.to_vec()), ("avro.codec", codec.as_bytes().to_vec()), ("avro.codec.compression_level", level.clone())];
            for (tl, tail) in &tails[..3] {
                let f = header_with(&meta, tail);
                let d = || json!({"entry": "Reader", "codec": codec, "compression_level_metadata": ll, "blocks": tl, "bytes": ev::trunc(&hex(&f), 500)});
                cx.case(&d, &mut || read_all_container(&f));
            }
        }
    }
}

fn unit_codec(cx: &mut Ctx, ci: usize, tier: Tier) {
    let (cname, codec) = codecs()[ci];
    let mut inputs: Vec<(String, Vec<u8>)> = byte_universe(if tier == Tier::Quick { 4 } else { 5 }).into_iter().map(|b| ("BU".to_string(), b)).collect();
    // valid streams, their truncations and substitutions
    for payload in [b"".to_vec(), b"a".to_vec(), b"hello hello hello hello".to_vec(), vec![0u8; 300]] {
        let mut s = payload.clone();
        if codec.compress(&mut s).is_ok() {
            for m in mutations(&s) {
                inputs.push(("mutated-valid-stream".into(), m));
            }
            inputs.push(("valid-stream".into(), s));
        }
    }
    // bombs: highly compressible payloads far above the small limits
    for n in [200_000usize, 5_000_000] {
        let mut s = vec![0u8; n];
        if codec.compress(&mut s).is_ok() {
            inputs.push((format!("bomb-{n}-zeros"), s));
        }
    }
    // snappy: declared lengths
    for declared in [1u64 << 20, 1 << 31, (1 << 32) + 1, u64::MAX >> 1] {
        let mut s = vec![];
        let mut n = declared;
        loop {
            let b = (n & 0x7f) as u8;
            n >>= 7;
            if n == 0 {
                s.push(b);
                break;
            }
            s.push(b | 0x80);
        }
        s.extend_from_slice(&[0, 0x61, 0, 0, 0, 0]);
        inputs.push((format!("declared-length-{declared}"), s));
    }
    let limit = cx.limit;
    for (label, input) in &inputs {
        let d = || json!({"entry": "Codec::decompress", "codec": cname, "input": label, "bytes": ev::trunc(&hex(input), 300)});
        // the copy of the input is made outside the measured region
        let mut v = input.clone();
        cx.case(&d, &mut || {
            match codec.decompress(&mut v) {
                Ok(()) => {
                    if cname != "null" && v.len() > limit {
                        // larger than the limit: reported through a panic so that it is judged as a violation
                        panic!("decompressed {} bytes with an allocation limit of {limit}", v.len());
                    }
                    "ok"
                }
                Err(_) => "err",
            }
        });
    }
}

// ------------------------------------------------------------------------------------------
// worker (child) entry point

pub fn worker_main(args: &J) -> i32 {
    let limit = args["limit"].as_u64().unwrap_or(65536) as usize;
    let limit_class = args["limit_class"].as_u64().unwrap_or(1) as usize;
    let shard = args["shard"].as_u64().unwrap_or(0) as usize;
    let nshards = args["nshards"].as_u64().unwrap_or(1) as usize;
    let tier = if args["tier"] == "thorough" { Tier::Thorough } else { Tier::Quick };
    let progress = Progress::open(args["progress"].as_str().unwrap_or("/dev/null"), false);
    let out_path = args["out"].as_str().unwrap_or("").to_string();
    let skip: BTreeSet<u64> = args["skip"].as_array().map(|a| a.iter().filter_map(|x| x.as_u64()).collect()).unwrap_or_default();
    let only: Option<u64> = args["only"].as_u64();
    apache_avro::util::max_allocation_bytes(limit);
    alloc::set_hard_cap(if limit > (1 << 30) / 3 { 2 << 30 } else { 1 << 30 });
    let mut cx = Ctx { limit, progress, st: Stats::default(), unit: 0, k: 0, skip, only, case_file: format!("{out_path}.case"), describe_only: args["describe_only"] == true, floor: 0 };
    let us = units(tier, limit_class);
    for (ui, u) in us.iter().enumerate() {
        if ui % nshards != shard {
            continue;
        }
        if let Some(o) = only {
            if o >> 32 != ui as u64 {
                continue;
            }
        }
        cx.unit = ui as u64;
        cx.k = 0;
        cx.floor = match u {
            Unit::Container(ci) | Unit::Codec(ci) if codecs()[*ci].0 == "bzip2" => 4 << 20,
            _ => 0,
        };
        match u {
            Unit::Datum(si) => unit_datum(&mut cx, *si, tier),
            Unit::Container(ci) => unit_container(&mut cx, *ci),
            Unit::Headers => unit_headers(&mut cx),
            Unit::Codec(ci) => unit_codec(&mut cx, *ci, tier),
        }
        // checkpoint after every unit
        cx.progress.set(u64::MAX - 1);
        write_stats(&out_path, &cx.st, ui as u64 + 1);
    }
    cx.progress.set(u64::MAX);
    write_stats(&out_path, &cx.st, u64::MAX);
    0
}

pub fn write_stats(path: &str, st: &Stats, next_unit: u64) {
    let j = json!({
        "next_unit": next_unit,
        "states": st.states, "transitions": st.transitions, "evaluations": st.evaluations,
        "classes": st.classes, "outcomes": st.outcomes,
        "violations": st.violations.iter().map(|v| json!({"order": v.order, "clause": v.clause, "case": v.case, "replay": v.replay})).collect::<Vec<_>>(),
        "deviations": st.deviations.iter().map(|(k, (n, ex))| json!({"id": k, "count": n, "example": ex})).collect::<Vec<_>>(),
        "samples": st.samples,
        "examples": st.examples,
    });
    let tmp = format!("{path}.tmp");
    if std::fs::write(&tmp, j.to_string()).is_ok() {
        std::fs::rename(&tmp, path).ok();
    }
}

pub fn read_stats(path: &str) -> Option<(Stats, u64)> {
    let j: J = serde_json::from_str(&std::fs::read_to_string(path).ok()?).ok()?;
    let mut st = Stats::default();
    st.states = j["states"].as_u64()?;
    st.transitions = j["transitions"].as_u64()?;
    st.evaluations = j["evaluations"].as_u64()?;
    for c in j["classes"].as_array()? {
        st.classes.insert(c.as_str()?.to_string());
    }
    for (k, v) in j["outcomes"].as_object()? {
        st.outcomes.insert(k.clone(), v.as_u64()?);
    }
    for v in j["violations"].as_array()? {
        st.violations.push(Violation { order: v["order"].as_u64()?, clause: v["clause"].as_str()?.to_string(), case: v["case"].clone(), replay: v["replay"].clone() });
    }
    for d in j["deviations"].as_array()? {
        st.deviations.insert(d["id"].as_str()?.to_string(), (d["count"].as_u64()?, d["example"].clone()));
    }
    st.samples = j["samples"].as_array()?.clone();
    if let Some(ex) = j["examples"].as_object() {
        for (k, v) in ex {
            st.examples.insert(k.clone(), v.clone());
        }
    }
    Some((st, j["next_unit"].as_u64()?))
}

// ------------------------------------------------------------------------------------------
// parent

fn describe_case(limit_class: usize, tier: Tier, id: u64) -> J {
    let us = units(tier, limit_class);
    let ui = (id >> 32) as usize;
    // a describe-only worker enumerates up to the case and writes it out without running it
    let dir = format!("{}/harness/target/c05", ev::VERIF_DIR);
    let out = format!("{dir}/describe_{limit_class}_{id}.json");
    let args = json!({"limit": LIMITS[limit_class], "limit_class": limit_class, "shard": 0, "nshards": 1, "tier": tier.name(), "progress": format!("{dir}/describe.progress"), "out": out, "skip": [], "only": id, "describe_only": true});
    let _ = Progress::open(&format!("{dir}/describe.progress"), true);
    let described: Option<J> = std::env::current_exe().ok().and_then(|exe| Command::new(exe).args(["C05-WORKER", &args.to_string()]).stdin(Stdio::null()).stdout(Stdio::null()).stderr(Stdio::null()).status().ok()).and_then(|_| std::fs::read_to_string(format!("{out}.case")).ok()).and_then(|t| serde_json::from_str(&t).ok());
    json!({"unit": us.get(ui).map(|u| format!("{u:?}")), "case_index_in_unit": id & 0xffff_ffff, "input": described})
}

struct Child {
    proc: std::process::Child,
    progress: Progress,
    out: String,
    limit_class: usize,
    shard: usize,
    skip: Vec<u64>,
    last: u64,
    last_change: Instant,
}

fn spawn(tier: Tier, limit_class: usize, shard: usize, nshards: usize, skip: &[u64], only: Option<u64>, dir: &str) -> Child {
    let ppath = format!("{dir}/c05_{limit_class}_{shard}.progress");
    let out = format!("{dir}/c05_{limit_class}_{shard}.json");
    let _ = std::fs::remove_file(&ppath);
    let progress = Progress::open(&ppath, true);
    progress.set(0);
    let args = json!({"limit": LIMITS[limit_class], "limit_class": limit_class, "shard": shard, "nshards": nshards, "tier": tier.name(), "progress": ppath, "out": out, "skip": skip, "only": only});
    let exe = std::env::current_exe().unwrap_or_else(|e| ev::machinery(&e.to_string()));
    let proc = Command::new(exe).args(["C05-WORKER", &args.to_string()]).stdin(Stdio::null()).stdout(Stdio::null()).stderr(Stdio::null()).spawn().unwrap_or_else(|e| ev::machinery(&format!("cannot spawn worker: {e}")));
    Child { proc, progress, out, limit_class, shard, skip: skip.to_vec(), last: 0, last_change: Instant::now() }
}

/// Runs one case alone. Some(stats) when it finishes cleanly within 10 s of CPU time (and 300 s of wall
/// time): then the stall seen by the monitor was the machine's, not the library's.
fn confirm_not_hung(tier: Tier, limit_class: usize, shard: usize, nshards: usize, case_id: u64, dir: &str) -> Option<Stats> {
    fn children_cpu() -> f64 {
        let mut ru: libc::rusage = unsafe { std::mem::zeroed() };
        unsafe { libc::getrusage(libc::RUSAGE_CHILDREN, &mut ru) };
        (ru.ru_utime.tv_sec + ru.ru_stime.tv_sec) as f64 + (ru.ru_utime.tv_usec + ru.ru_stime.tv_usec) as f64 / 1e6
    }
    let before = children_cpu();
    let mut c = spawn(tier, limit_class, shard, nshards, &[], Some(case_id), dir);
    let t0 = Instant::now();
    // CPU seconds the child has used so far (utime + stime of /proc/<pid>/stat, in ticks of 1/100 s)
    let child_cpu = |pid: u32| -> f64 {
        std::fs::read_to_string(format!("/proc/{pid}/stat"))
            .ok()
            .and_then(|s| {
                let rest = s.rsplit_once(')')?.1.to_string();
                let f: Vec<&str> = rest.split_whitespace().collect();
                Some((f.get(11)?.parse::<u64>().ok()? + f.get(12)?.parse::<u64>().ok()?) as f64 / 100.0)
            })
            .unwrap_or(0.0)
    };
    let pid = c.proc.id();
    let status = loop {
        match c.proc.try_wait() {
            Ok(Some(s)) => break Some(s),
            // the verdict is taken on CPU time, which a loaded machine does not inflate: more than 10 s of
            // CPU on one small input is a hang (or unbounded work); the wall limit only catches a child that
            // blocks without using CPU, and is generous enough for a machine with a load of several times
            // its cores
            Ok(None) if child_cpu(pid) > 10.0 || t0.elapsed() > Duration::from_secs(300) => {
                let _ = c.proc.kill();
                let _ = c.proc.wait();
                break None;
            }
            Ok(None) => std::thread::sleep(Duration::from_millis(20)),
            Err(_) => break None,
        }
    };
    let cpu = children_cpu() - before;
    if status.is_some_and(|s| s.success()) && c.progress.get() == u64::MAX && cpu <= 10.0 {
        return read_stats(&c.out).map(|(s, _)| s);
    }
    None
}

pub fn run(tier: Tier, replay: Option<&J>) -> i32 {
    let start = Instant::now();
    let dir = format!("{}/harness/target/c05", ev::VERIF_DIR);
    std::fs::create_dir_all(&dir).ok();
    let nshards = 12usize;
    let hang_after = Duration::from_secs(10);
    let mut st = Stats::default();
    let mut jobs: Vec<(usize, usize, Option<u64>)> = vec![];
    if let Some(r) = replay {
        let lc = LIMITS.iter().position(|l| Some(*l as u64) == r["limit"].as_u64()).unwrap_or(1);
        let id = r["case_id"].as_u64().unwrap_or(0);
        let ui = (id >> 32) as usize;
        jobs.push((lc, ui % nshards, Some(id)));
    } else {
        for lc in 0..LIMITS.len() {
            for s in 0..nshards {
                jobs.push((lc, s, None));
            }
        }
    }
    let max_parallel = 16;
    let mut running: Vec<Child> = vec![];
    let mut queue = jobs.into_iter().rev().collect::<Vec<_>>();
    let mut incidents = 0u64;
    let (mut real_hangs, mut load_stalls) = (0u32, 0u32);
    loop {
        while running.len() < max_parallel {
            match queue.pop() {
                Some((lc, s, only)) => running.push(spawn(tier, lc, s, nshards, &[], only, &dir)),
                None => break,
            }
        }
        if running.is_empty() {
            break;
        }
        std::thread::sleep(Duration::from_millis(100));
        let mut i = 0;
        while i < running.len() {
            let c = &mut running[i];
            let cur = c.progress.get();
            if cur != c.last {
                c.last = cur;
                c.last_change = Instant::now();
            }
            let exited = c.proc.try_wait().ok().flatten();
            let hung = exited.is_none() && cur < u64::MAX - 1 && c.last_change.elapsed() > hang_after;
            if exited.is_none() && !hung {
                i += 1;
                continue;
            }
            let mut c = running.swap_remove(i);
            if hung {
                let _ = c.proc.kill();
                let _ = c.proc.wait();
            }
            let clean = exited.is_some_and(|e| e.success()) && cur == u64::MAX;
            if let Some((s2, _)) = read_stats(&c.out) {
                if clean {
                    st = st.merge(s2);
                    continue;
                }
            }
            if clean {
                continue;
            }
            // A stall is judged by wall time, which an oversubscribed machine stretches: before it counts,
            // the one case is run again alone and judged by the CPU time it needs.
            if hung && replay.is_none() && real_hangs < 3 && load_stalls < 200 {
                if let Some(s2) = confirm_not_hung(tier, c.limit_class, c.shard, nshards, cur, &dir) {
                    load_stalls += 1;
                    st = st.merge(s2);
                    st.outcome("slow-under-load(finished-alone-within-the-cpu-budget)");
                    let mut skip = c.skip.clone();
                    skip.push(cur);
                    let mut nc = spawn(tier, c.limit_class, c.shard, nshards, &skip, None, &dir);
                    nc.skip = skip;
                    running.push(nc);
                    continue;
                }
            }
            // the worker died or hung at case `cur`
            incidents += 1;
            if hung {
                real_hangs += 1;
            }
            let what = if hung {
                "no progress for 10 s on one input (hang or time not bounded by the input size)".to_string()
            } else if exited.and_then(|e| e.code()) == Some(77) {
                "a single allocation request above the hard cap (1 GiB) was made".to_string()
            } else {
                format!("the worker process died: {:?}", exited)
            };
            let case = describe_case(c.limit_class, tier, cur);
            let dj = json!({"case": case, "allocation_limit": LIMITS[c.limit_class], "observed": what});
            match deviation(&dj, if hung { "hang" } else { "abort" }) {
                Some(d) => {
                    st.outcome("known-deviation");
                    st.deviation(d, || dj.clone());
                }
                None => {
                    st.outcome(if hung { "violation:hang" } else { "violation:abort" });
                    st.violate(cur, if hung { "reading untrusted bytes does not finish in bounded time" } else { "reading untrusted bytes aborted the process or over-allocated" }, dj, json!({"case_id": cur, "limit": LIMITS[c.limit_class]}));
                }
            }
            // (a library that really hangs does so on many inputs: three confirmed ones end the search)
            if replay.is_none() && incidents < 40 && c.skip.len() < 12 && real_hangs < 3 {
                // resume after the culprit: rerun this shard skipping the known culprits
                let mut skip = c.skip.clone();
                skip.push(cur);
                let mut nc = spawn(tier, c.limit_class, c.shard, nshards, &skip, None, &dir);
                nc.skip = skip;
                running.push(nc);
            } else {
                st.caps.insert("worker restarts exhausted for a shard".into());
            }
        }
    }
    let rep = Report {
        id: "C05".into(),
        tier,
        level: "model_checking",
        rule: "entry points {GenericDatumReader::read_value, read_deser, GenericSingleObjectReader, Reader iteration (values and into_deser_iter), Codec::decompress per codec} x inputs {all byte strings up to the length bound over {00,01,02,03,7f,80,fe,ff}, hostile full-width lengths/counts, every truncation and single-byte substitution of valid encodings / valid files / valid compressed streams, hostile embedded schemas x hostile block headers, every shape of avro.codec.compression_level, decompression bombs} x allocation limits {4 KiB, 64 KiB, default}, each limit in its own worker processes under a counting allocator; oracle: no panic, no abort, no 10 s stall on one input, largest single allocation request <= 3 x max(limit, 32 KiB). A class is (unit, outcome, largest request in KiB)".into(),
        bounds: json!({"limits": LIMITS, "shards_per_limit": nshards, "byte_string_len": if tier == Tier::Quick { 4 } else { 5 }, "schema_depth": 2}),
        assumptions: vec!["the factor 3 covers hash-map bucket rounding and buffer doubling after a checked reserve; peak live memory is not judged".into(), "reader iteration is cut at 10 000 items per file".into()],
        exhaustive: replay.is_none(),
        extra: json!({"worker_incidents": incidents}),
    };
    ev::finish(rep, st, start)
}

#[allow(dead_code)]
fn unused(r: &mut dyn Read) {
    let _ = r;
}
