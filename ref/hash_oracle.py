#!/usr/bin/env python3
"""Line-oriented digest oracle (python stdlib only): each input line is a hex string; output: md5 sha256."""
import sys, hashlib
for line in sys.stdin:
    b = bytes.fromhex(line.strip())
    print(hashlib.md5(b).hexdigest(), hashlib.sha256(b).hexdigest())
    sys.stdout.flush()
