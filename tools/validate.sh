#!/bin/bash
# validate MANIFEST.json and all evidence files against the schemas
python3-vt - <<'PY'
import json, jsonschema, glob
jsonschema.validate(json.load(open('/verif/MANIFEST.json')), json.load(open('/root/.vp/MANIFEST.schema.json')))
print('MANIFEST ok')
es = json.load(open('/root/.vp/EVIDENCE.schema.json'))
for f in sorted(glob.glob('/verif/evidence/*.json')):
    try:
        jsonschema.validate(json.load(open(f)), es); print(f, 'ok')
    except Exception as e:
        print(f, 'INVALID', str(e)[:300])
PY
