//! C06: whatever decodes successfully conforms, re-encodes and re-decodes to itself; truncated
//! datums are errors. Byte universe BU(n) plus truncations / substitutions of valid encodings.

use crate::c01::{lib_decode, lib_encode, Filter};
use crate::corpus::{self, Sc};
use crate::ev::{self, guarded, hex, Report, Stats, Tier};
use crate::refbin::{self, Cur, DecErr};
use crate::val::{self, raw, to_lib, veq, V};
use rayon::prelude::*;
use serde_json::json;
use std::time::Instant;

pub const B: [u8; 8] = [0x00, 0x01, 0x02, 0x03, 0x7f, 0x80, 0xfe, 0xff];

/// All strings of length <= n over B, shortest first.
pub fn byte_universe(n: usize) -> Vec<Vec<u8>> {
    let mut out: Vec<Vec<u8>> = vec![vec![]];
    let mut layer: Vec<Vec<u8>> = vec![vec![]];
    for _ in 0..n {
        let mut next = Vec::with_capacity(layer.len() * 8);
        for p in &layer {
            for b in B {
                let mut x = p.clone();
                x.push(b);
                next.push(x);
            }
        }
        out.extend(next.iter().cloned());
        layer = next;
    }
    out
}

/// Truncations at every offset and single-byte substitutions by every member of B.
pub fn mutations(valid: &[u8]) -> Vec<Vec<u8>> {
    let mut out = vec![];
    for cut in 0..valid.len() {
        out.push(valid[..cut].to_vec());
    }
    if valid.len() <= 24 {
        for i in 0..valid.len() {
            for b in B {
                if valid[i] != b {
                    let mut x = valid.to_vec();
                    x[i] = b;
                    out.push(x);
                }
            }
        }
    }
    out
}

pub fn run(tier: Tier, filter: Filter) -> i32 {
    let start = Instant::now();
    refbin::self_test();
    // a process-wide setting; C06 is not about the limit, keep allocations small
    apache_avro::util::max_allocation_bytes(1 << 20);
    let (depth, n) = match tier {
        Tier::Quick => (2, 4),
        Tier::Thorough => (3, 5),
    };
    let corpus = corpus::build(depth, false);
    let bu = byte_universe(n);
    let st = corpus
        .par_iter()
        .filter(|sc| filter.schema.is_none_or(|i| i == sc.idx))
        .map(|sc| schema_sweep(sc, &bu, &filter))
        .reduce(Stats::default, Stats::merge);
    let rep = Report {
        id: "C06".into(),
        tier,
        level: "model_checking",
        rule: format!("cases = schema in SU({depth}) x (all byte strings of length <= {n} over {{00,01,02,03,7f,80,fe,ff}} + every truncation and every single-byte substitution of every valid encoding of the C01 value universe); a class is (schema shape, decode outcome, consumed length) for inputs on which decoding returned Ok"),
        bounds: json!({"schema_depth": depth, "byte_string_len": n, "byte_alphabet": "00 01 02 03 7f 80 fe ff", "schemas": corpus.len()}),
        assumptions: vec!["'truncated' is decided by the independent strict decoder refbin (it ran out of input)".into()],
        exhaustive: filter.schema.is_none(),
        extra: json!({}),
    };
    ev::finish(rep, st, start)
}

fn schema_sweep(sc: &Sc, bu: &[Vec<u8>], filter: &Filter) -> Stats {
    let mut st = Stats::default();
    let schema = match corpus::parse_lib(&sc.text) {
        Ok(s) => s,
        Err(_) => {
            st.outcome("schema-not-accepted");
            return st;
        }
    };
    let mut idx = 0usize;
    let mut one = |bytes: &[u8], origin: &str, st: &mut Stats| {
        let my = idx;
        idx += 1;
        if filter.value.is_some_and(|x| x != my) {
            return;
        }
        judge(sc, &schema, bytes, origin, my, st);
    };
    for b in bu {
        one(b, "BU", &mut st);
    }
    // structured: truncations / substitutions of valid encodings
    let vals = val::values(&sc.s, &sc.env, 1, 0);
    let mut seen = std::collections::BTreeSet::new();
    for v in &vals {
        let enc = refbin::encode(v, &sc.s, &sc.env);
        if enc.len() > 80 {
            continue;
        }
        for m in mutations(&enc) {
            if seen.insert(m.clone()) {
                one(&m, "mutation", &mut st);
            }
        }
    }
    st
}

fn judge(sc: &Sc, schema: &apache_avro::Schema, bytes: &[u8], origin: &str, vi: usize, st: &mut Stats) {
    let order = (sc.idx as u64) << 32 | vi as u64;
    st.states += 1;
    st.evaluations += 1;
    st.transitions += 1;
    let lib = lib_decode(schema, bytes);
    let (lv, ln) = match lib {
        Ok(x) => x,
        Err(e) => {
            if e.starts_with("panic") {
                st.outcome("panic(C05)");
            } else {
                st.outcome("err");
            }
            return;
        }
    };
    let case = |extra: serde_json::Value| json!({"schema": sc.json, "bytes": hex(bytes), "origin": origin, "library_value": ev::trunc(&format!("{lv:?}"), 300), "consumed": ln, "detail": extra});
    let replay = json!({"schema_idx": sc.idx, "value_idx": vi, "schema": sc.json, "bytes": hex(bytes)});
    // strict reference verdict on the same input
    let mut c = Cur::new(bytes);
    let strict = refbin::decode(&mut c, &sc.s, &sc.env);
    let truncated = matches!(strict, Err(DecErr::Eof));
    // oracle clauses
    let validates = guarded(|| lv.validate(schema)).unwrap_or(false);
    let reenc = lib_encode(schema, &lv, true);
    st.transitions += 2;
    let redec_same = match &reenc {
        Ok(b) => match lib_decode(schema, b) {
            Ok((v2, n2)) => n2 == b.len() && veq(&raw(&v2).canon(), &raw(&lv).canon()),
            Err(_) => false,
        },
        Err(_) => false,
    };
    let mut failed: Vec<&str> = vec![];
    if !validates {
        failed.push("decoded value does not validate against the schema");
    }
    if reenc.is_err() {
        failed.push("re-encoding the decoded value fails");
    } else if !redec_same {
        failed.push("decoding the re-encoded bytes gives a different value");
    }
    if truncated {
        failed.push("input is a truncated datum (reference decoder ran out of input) but decoding returned Ok");
    }
    if failed.is_empty() {
        st.outcome("ok-conforming");
        st.class(format!("{}|{}", sc.s.shape(&sc.env, 3), ln));
        st.sample(|| json!({"schema": sc.json, "bytes": hex(bytes), "decoded": ev::trunc(&format!("{lv:?}"), 200)}));
        return;
    }
    // re-judge under the recorded deviations: the lenient model must reproduce the library exactly
    let mut lc = Cur::lenient(bytes);
    let len = refbin::decode(&mut lc, &sc.s, &sc.env);
    let devs = lc.dev.clone().unwrap_or_default();
    match len {
        Ok(dv) if !devs.is_empty() && lc.pos.min(bytes.len()) == ln && veq(&dv.canon(), &raw(&lv).canon()) => {
            st.outcome("known-deviation");
            for d in devs {
                st.deviation(d, || case(json!({"failed_clauses": failed})));
            }
        }
        other => {
            st.outcome("violation");
            st.violate(order, failed[0], case(json!({"failed_clauses": failed, "strict_reference": format!("{strict:?}"), "lenient_reference": ev::trunc(&format!("{other:?}"), 300), "lenient_consumed": lc.pos})), replay);
        }
    }
}

#[allow(dead_code)]
fn unused(v: &V, sc: &Sc) {
    let _ = to_lib(v, &sc.s, &sc.env);
}
