mod alloc;
mod ast;
mod c01;
mod c05;
mod c03;
mod c04;
mod c06;
mod c07;
mod c08;
mod c10;
mod c11;
mod c12;
mod c13;
mod c14;
mod c15;
mod c18;
mod oracle;
mod c20;
mod corpus;
mod ev;
mod evolve;
mod libmodel;
mod pcf;
mod refbin;
mod refocf;
mod refresolve;
mod su;
mod texts;
mod val;
mod wf;

use ev::Tier;

#[global_allocator]
static GLOBAL: alloc::Counting = alloc::Counting;

fn usage() -> ! {
    eprintln!("usage: vcheck <ID> <quick|thorough> | vcheck <ID> --replay <file>");
    std::process::exit(2);
}

fn main() {
    let args: Vec<String> = std::env::args().collect();
    if args.len() < 3 {
        usage();
    }
    ev::quiet_panics();
    let id = args[1].as_str();
    if id == "C05-WORKER" {
        let a: serde_json::Value = serde_json::from_str(&args[2]).unwrap_or_else(|e| ev::machinery(&format!("worker args: {e}")));
        std::process::exit(c05::worker_main(&a));
    }
    if id == "C06-LONG" {
        std::process::exit(c06::long_child(&args[2]));
    }
    let (tier, replay): (Tier, Option<serde_json::Value>) = match args[2].as_str() {
        "quick" => (Tier::Quick, None),
        "thorough" => (Tier::Thorough, None),
        "--replay" => {
            if args.len() < 4 {
                usage();
            }
            let text = std::fs::read_to_string(&args[3]).unwrap_or_else(|e| ev::machinery(&format!("replay file: {e}")));
            let j: serde_json::Value = serde_json::from_str(&text).unwrap_or_else(|e| ev::machinery(&format!("replay file: {e}")));
            let t = if j["tier"] == "thorough" { Tier::Thorough } else { Tier::Quick };
            (t, Some(j["replay"].clone()))
        }
        _ => usage(),
    };
    let threads = std::env::var("VERIF_THREADS").ok().and_then(|s| s.parse().ok()).unwrap_or(16);
    rayon::ThreadPoolBuilder::new().num_threads(threads).stack_size(64 << 20).build_global().ok();
    let filter = replay.as_ref().map(c01::Filter::from_replay).unwrap_or_default();
    let depth = replay.as_ref().and_then(|r| r["depth"].as_u64()).map(|d| d as usize);
    let rp = replay.as_ref();
    let code = match id {
        "C01" => c01::run_c01(tier, filter, depth),
        "C02" => c01::run_c02(tier, filter, depth),
        "C03" => c03::run_check(tier, rp),
        "C04" => c04::run(tier, rp),
        "C05" => c05::run(tier, rp),
        "C06" => c06::run(tier, filter),
        "C07" => c07::run(tier, filter),
        "C08" => c08::run_c08(tier, rp),
        "C09" => c08::run_c09(tier, rp),
        "C10" => c10::run(tier, rp),
        "C11" => c11::run(tier, rp),
        "C12" => c12::run(tier, rp),
        "C12-DUMP" => {
            print!("{}", c12::dump(2));
            0
        }
        "C13" => c13::run(tier, rp),
        "C14" => c14::run(tier, rp),
        "C15" => c15::run(tier, rp),
        "C18" => c18::run(tier, rp),
        "C20" => c20::run(tier, rp),
        _ => ev::machinery(&format!("unknown property {id}")),
    };
    std::process::exit(code);
}
