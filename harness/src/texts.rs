//! Schema *text* universe: structures of SU plus decorations (doc, aliases, defaults, custom
//! attributes, namespace spellings, field order) applied at every node; used by C10, C11, C12.

use serde_json::{json, Map, Value as J};

#[derive(Clone, Debug, PartialEq)]
pub enum Seg {
    Key(String),
    Idx(usize),
}

#[derive(Clone, Debug, PartialEq)]
pub enum NodeKind {
    /// a schema position; `named` for record/enum/fixed definitions
    Schema { ty: String, named: bool, object_form: bool },
    Field,
}

#[derive(Clone, Debug)]
pub struct Node {
    pub path: Vec<Seg>,
    pub kind: NodeKind,
    /// enclosing namespace at this node (per the spec's rules)
    pub ns: Option<String>,
}

const PRIMS: [&str; 8] = ["null", "boolean", "int", "long", "float", "double", "bytes", "string"];

pub fn get<'a>(j: &'a J, path: &[Seg]) -> &'a J {
    let mut cur = j;
    for s in path {
        cur = match s {
            Seg::Key(k) => &cur[k.as_str()],
            Seg::Idx(i) => &cur[*i],
        };
    }
    cur
}

pub fn get_mut<'a>(j: &'a mut J, path: &[Seg]) -> &'a mut J {
    let mut cur = j;
    for s in path {
        cur = match s {
            Seg::Key(k) => &mut cur[k.as_str()],
            Seg::Idx(i) => &mut cur[*i],
        };
    }
    cur
}

/// Enumerate schema and field nodes.
pub fn nodes(j: &J) -> Vec<Node> {
    let mut out = vec![];
    walk(j, &mut vec![], None, &mut out);
    out
}

fn walk(j: &J, path: &mut Vec<Seg>, ns: Option<String>, out: &mut Vec<Node>) {
    match j {
        J::String(s) => {
            out.push(Node { path: path.clone(), kind: NodeKind::Schema { ty: if PRIMS.contains(&s.as_str()) { s.clone() } else { "ref".into() }, named: false, object_form: false }, ns });
        }
        J::Array(a) => {
            out.push(Node { path: path.clone(), kind: NodeKind::Schema { ty: "union".into(), named: false, object_form: false }, ns: ns.clone() });
            for (i, b) in a.iter().enumerate() {
                path.push(Seg::Idx(i));
                walk(b, path, ns.clone(), out);
                path.pop();
            }
        }
        J::Object(o) => {
            let ty = o.get("type").and_then(|t| t.as_str()).unwrap_or("").to_string();
            let named = matches!(ty.as_str(), "record" | "enum" | "fixed");
            let my_ns = if named {
                let name = o.get("name").and_then(|n| n.as_str()).unwrap_or("");
                crate::ast::full_name(name, o.get("namespace").and_then(|n| n.as_str()), ns.as_deref()).0
            } else {
                ns.clone()
            };
            out.push(Node { path: path.clone(), kind: NodeKind::Schema { ty: ty.clone(), named, object_form: true }, ns: ns.clone() });
            match ty.as_str() {
                "array" => {
                    path.push(Seg::Key("items".into()));
                    walk(&o["items"], path, ns, out);
                    path.pop();
                }
                "map" => {
                    path.push(Seg::Key("values".into()));
                    walk(&o["values"], path, ns, out);
                    path.pop();
                }
                "record" => {
                    if let Some(fs) = o.get("fields").and_then(|f| f.as_array()) {
                        for (i, f) in fs.iter().enumerate() {
                            path.push(Seg::Key("fields".into()));
                            path.push(Seg::Idx(i));
                            out.push(Node { path: path.clone(), kind: NodeKind::Field, ns: my_ns.clone() });
                            path.push(Seg::Key("type".into()));
                            walk(&f["type"], path, my_ns.clone(), out);
                            path.pop();
                            path.pop();
                            path.pop();
                        }
                    }
                }
                _ => {}
            }
        }
        _ => {}
    }
}

/// A conforming default (as JSON) for the schema at `j`, or None where the model has none.
pub fn default_for(j: &J, root: &J) -> Option<J> {
    match j {
        J::String(s) => Some(match s.as_str() {
            "null" => J::Null,
            "boolean" => json!(true),
            "int" => json!(-7),
            "long" => json!(5000000000i64),
            "float" => json!(1.5),
            "double" => json!(-2.25),
            "bytes" => json!("\u{0}\u{ff}b"),
            "string" => json!("d\"\\\u{e9}"),
            name => {
                // reference: find the definition by simple name
                let def = find_def(root, name.rsplit('.').next().unwrap_or(name))?;
                return default_for(&def, root);
            }
        }),
        J::Array(a) => default_for(a.first()?, root),
        J::Object(o) => {
            let ty = o.get("type")?.as_str()?;
            if let Some(lt) = o.get("logicalType").and_then(|l| l.as_str()) {
                return Some(match (lt, ty) {
                    ("decimal", "bytes") => json!("\u{1}\u{2}"),
                    ("decimal", "fixed") => json!("\u{0}".repeat(o.get("size")?.as_u64()? as usize)),
                    ("uuid", "string") => json!("67e55044-10b1-426f-9247-bb680e5fe0c8"),
                    ("uuid", "fixed") | ("duration", "fixed") => json!("\u{1}".repeat(o.get("size")?.as_u64()? as usize)),
                    ("uuid", "bytes") => json!("\u{1}".repeat(16)),
                    ("big-decimal", _) => return None,
                    (_, "int") => json!(3),
                    (_, "long") => json!(4),
                    _ => return None,
                });
            }
            Some(match ty {
                "array" => json!([]),
                "map" => json!({}),
                "enum" => o.get("symbols")?.as_array()?.last()?.clone(),
                "fixed" => json!("\u{fe}".repeat(o.get("size")?.as_u64()? as usize)),
                "record" => {
                    let mut m = Map::new();
                    for f in o.get("fields")?.as_array()? {
                        m.insert(f.get("name")?.as_str()?.to_string(), default_for(f.get("type")?, root)?);
                    }
                    J::Object(m)
                }
                p => return default_for(&json!(p), root),
            })
        }
        _ => None,
    }
}

fn find_def(j: &J, simple: &str) -> Option<J> {
    match j {
        J::Object(o) => {
            if o.get("name").and_then(|n| n.as_str()).is_some_and(|n| n.rsplit('.').next() == Some(simple)) && o.contains_key("type") && !o.contains_key("fields_marker") {
                let ty = o.get("type").and_then(|t| t.as_str()).unwrap_or("");
                if matches!(ty, "record" | "enum" | "fixed") {
                    // a recursive record default would not terminate: only enums and fixed
                    if ty != "record" {
                        return Some(j.clone());
                    }
                    return None;
                }
            }
            o.values().find_map(|v| find_def(v, simple))
        }
        J::Array(a) => a.iter().find_map(|v| find_def(v, simple)),
        _ => None,
    }
}

#[derive(Clone, Debug)]
pub struct Deco {
    pub name: &'static str,
    /// does not change the Parsing Canonical Form (the specification calls these edits irrelevant)
    pub pcf_irrelevant: bool,
    pub text: J,
}

/// An object that looks like the definition of the LAST named type defined in `j` (same name and
/// namespace, other content): as the value of a custom attribute it is plain data.
fn lookalike(j: &J) -> Option<J> {
    fn last_named(j: &J, out: &mut Option<(String, Option<String>)>) {
        match j {
            J::Array(a) => a.iter().for_each(|x| last_named(x, out)),
            J::Object(o) => {
                if matches!(o.get("type").and_then(|t| t.as_str()), Some("record" | "enum" | "fixed")) {
                    if let Some(n) = o.get("name").and_then(|n| n.as_str()) {
                        *out = Some((n.to_string(), o.get("namespace").and_then(|n| n.as_str()).map(|s| s.to_string())));
                    }
                }
                for k in ["fields", "type", "items", "values"] {
                    if let Some(v) = o.get(k) {
                        last_named(v, out);
                    }
                }
            }
            _ => {}
        }
    }
    let mut found = None;
    last_named(j, &mut found);
    found.map(|(name, ns)| {
        let mut o = json!({"type": "enum", "name": name, "symbols": ["LOOKALIKE"]});
        if let Some(ns) = ns {
            o["namespace"] = json!(ns);
        }
        o
    })
}

pub const NASTY_DOC: &str = "doc with \"quotes\", back\\slash, \ttab, \u{1}ctl, \u{e9} and \u{1F600}";

/// All single decorations of `j` (one decoration at one node).
pub fn decorations(j: &J) -> Vec<Deco> {
    let mut out = vec![];
    for n in nodes(j) {
        let here = get(j, &n.path).clone();
        let mut with = |name: &'static str, irrelevant: bool, f: &dyn Fn(&mut J)| {
            let mut c = j.clone();
            f(get_mut(&mut c, &n.path));
            if c != *j {
                out.push(Deco { name, pcf_irrelevant: irrelevant, text: c });
            }
        };
        match &n.kind {
            NodeKind::Field => {
                with("field-doc", true, &|x| x["doc"] = json!(NASTY_DOC));
                with("field-doc-empty", true, &|x| x["doc"] = json!(""));
                with("field-doc-blank", true, &|x| x["doc"] = json!(" \n\t"));
                // long docs whose every byte offset falls inside a two-byte character for one of the two
                with("field-doc-long-non-ascii", true, &|x| x["doc"] = json!("\u{e9}".repeat(150)));
                with("field-doc-long-non-ascii-shifted", true, &|x| x["doc"] = json!(format!("a{}", "\u{e9}".repeat(150))));
                // a custom attribute whose value looks like the definition of a named type of this document
                if let Some(look) = lookalike(j) {
                    with("field-custom-lookalike-definition", true, &|x| x["replacedBy"] = look.clone());
                }
                with("field-aliases", true, &|x| x["aliases"] = json!(["old_name", "older"]));
                with("field-order-descending", true, &|x| x["order"] = json!("descending"));
                with("field-order-ignore", true, &|x| x["order"] = json!("ignore"));
                // a custom attribute whose key means something on a type but nothing on a field
                with("field-custom-named-namespace", true, &|x| x["namespace"] = json!("legacy.elsewhere"));
                with("field-custom-scalar", true, &|x| x["x-custom"] = json!(42));
                with("field-custom-object", true, &|x| x["x-meta"] = json!({"k": [1, "two", null], "n": {"deep": true}}));
                if here.get("default").is_none() {
                    if let Some(d) = default_for(&here["type"], j) {
                        with("field-default", true, &|x| x["default"] = d.clone());
                    }
                }
            }
            NodeKind::Schema { ty, named, object_form } => {
                if *named {
                    with("type-doc", true, &|x| x["doc"] = json!(NASTY_DOC));
                    with("type-doc-empty", true, &|x| x["doc"] = json!(""));
                    with("type-doc-blank", true, &|x| x["doc"] = json!(" \n\t"));
                    with("type-doc-long-non-ascii", true, &|x| x["doc"] = json!("\u{e9}".repeat(150)));
                    with("type-doc-long-non-ascii-shifted", true, &|x| x["doc"] = json!(format!("a{}", "\u{e9}".repeat(150))));
                    with("type-aliases-relative", true, &|x| x["aliases"] = json!(["OldName"]));
                    with("type-aliases-qualified", true, &|x| x["aliases"] = json!(["other.ns.OldName", "Old2"]));
                    with("type-custom-scalar", true, &|x| x["x-custom"] = json!("v"));
                    with("type-custom-array", true, &|x| x["x-list"] = json!([1, 2.5, "s", false, null]));
                    // attribute names that are structural elsewhere are plain metadata here
                    if here.get("logicalType").is_none() {
                        if ty == "fixed" {
                            with("fixed-metadata-named-precision-scale", true, &|x| {
                                x["precision"] = json!(9);
                                x["scale"] = json!(2);
                            });
                            with("fixed-invalid-decimal-parameters", true, &|x| {
                                x["logicalType"] = json!("decimal");
                                x["precision"] = json!(1);
                                x["scale"] = json!(5);
                            });
                            with("fixed-unknown-logical-type", true, &|x| {
                                x["logicalType"] = json!("x-unknown");
                                x["scale"] = json!(3);
                            });
                        } else {
                            // not "irrelevant" for the canonical form: a literal reading of the [STRIP] rule keeps these keys
                            with("type-metadata-named-size-items", false, &|x| {
                                x["size"] = json!(4);
                                x["items"] = json!("int");
                                x["values"] = json!("long");
                            });
                        }
                    }
                    if ty == "enum" && here.get("default").is_none() {
                        let first = here["symbols"][0].clone();
                        with("enum-default", true, &|x| x["default"] = first.clone());
                    }
                    // redundant namespace spellings: only when the name is not dotted and has no namespace attribute
                    let name = here["name"].as_str().unwrap_or("").to_string();
                    if !name.contains('.') && here.get("namespace").is_none() {
                        if let Some(ns) = &n.ns {
                            let ns2 = ns.clone();
                            with("namespace-explicit-redundant", true, &|x| x["namespace"] = json!(ns2));
                            let dotted = format!("{ns}.{name}");
                            with("name-dotted-redundant", true, &|x| x["name"] = json!(dotted));
                        } else {
                            // introduces a namespace: changes full names (relevant edit)
                            with("namespace-added", false, &|x| x["namespace"] = json!("added.ns"));
                            with("namespace-empty-string", true, &|x| x["namespace"] = json!(""));
                        }
                    }
                } else if *object_form {
                    with("node-custom-scalar", true, &|x| x["x-custom"] = json!(true));
                    with("node-custom-object", true, &|x| x["x-obj"] = json!({"a": 1}));
                } else if ty != "ref" && ty != "union" {
                    // primitive in string form -> object form (irrelevant), with and without attributes
                    let t = ty.clone();
                    with("primitive-object-form", true, &|x| *x = json!({"type": t}));
                    let t = ty.clone();
                    with("primitive-object-form-custom", true, &|x| *x = json!({"type": t, "x-custom": [1]}));
                }
            }
        }
    }
    out
}

/// Own JSON emitter: object keys in reverse order and/or generous whitespace (both irrelevant for
/// every JSON consumer; serde_json's `Value` cannot express key order).
pub fn emit(j: &J, reverse: bool, spaced: bool) -> String {
    let mut out = String::new();
    emit_into(j, reverse, spaced, &mut out);
    out
}

fn emit_into(j: &J, reverse: bool, spaced: bool, out: &mut String) {
    let sp = if spaced { " \n\t " } else { "" };
    match j {
        J::Object(o) => {
            out.push('{');
            out.push_str(sp);
            let keys: Vec<&String> = if reverse { o.keys().rev().collect() } else { o.keys().collect() };
            for (i, k) in keys.iter().enumerate() {
                if i > 0 {
                    out.push(',');
                    out.push_str(sp);
                }
                out.push_str(&serde_json::to_string(k).unwrap());
                out.push_str(sp);
                out.push(':');
                out.push_str(sp);
                emit_into(&o[k.as_str()], reverse, spaced, out);
            }
            out.push_str(sp);
            out.push('}');
        }
        J::Array(a) => {
            out.push('[');
            for (i, x) in a.iter().enumerate() {
                if i > 0 {
                    out.push(',');
                    out.push_str(sp);
                }
                emit_into(x, reverse, spaced, out);
            }
            out.push(']');
        }
        other => out.push_str(&other.to_string()),
    }
}

/// Strict JSON scan: Err when the text is not valid JSON or any object has a duplicate key.
pub fn strict_json(text: &str) -> Result<(), String> {
    struct P<'a> {
        b: &'a [u8],
        i: usize,
    }
    impl P<'_> {
        fn ws(&mut self) {
            while self.i < self.b.len() && matches!(self.b[self.i], b' ' | b'\n' | b'\r' | b'\t') {
                self.i += 1;
            }
        }
        fn string(&mut self) -> Result<String, String> {
            // delegate unescaping to serde_json on the exact slice
            let start = self.i;
            if self.b.get(self.i) != Some(&b'"') {
                return Err(format!("string expected at {}", self.i));
            }
            self.i += 1;
            while self.i < self.b.len() {
                match self.b[self.i] {
                    b'\\' => self.i += 2,
                    b'"' => {
                        self.i += 1;
                        let s = std::str::from_utf8(&self.b[start..self.i]).map_err(|e| e.to_string())?;
                        return serde_json::from_str::<String>(s).map_err(|e| e.to_string());
                    }
                    c if c < 0x20 => return Err("raw control character in string".into()),
                    _ => self.i += 1,
                }
            }
            Err("unterminated string".into())
        }
        fn value(&mut self) -> Result<(), String> {
            self.ws();
            match self.b.get(self.i) {
                Some(b'{') => {
                    self.i += 1;
                    let mut keys = std::collections::BTreeSet::new();
                    self.ws();
                    if self.b.get(self.i) == Some(&b'}') {
                        self.i += 1;
                        return Ok(());
                    }
                    loop {
                        self.ws();
                        let k = self.string()?;
                        if !keys.insert(k.clone()) {
                            return Err(format!("duplicate key {k:?}"));
                        }
                        self.ws();
                        if self.b.get(self.i) != Some(&b':') {
                            return Err("':' expected".into());
                        }
                        self.i += 1;
                        self.value()?;
                        self.ws();
                        match self.b.get(self.i) {
                            Some(b',') => self.i += 1,
                            Some(b'}') => {
                                self.i += 1;
                                return Ok(());
                            }
                            _ => return Err("',' or '}' expected".into()),
                        }
                    }
                }
                Some(b'[') => {
                    self.i += 1;
                    self.ws();
                    if self.b.get(self.i) == Some(&b']') {
                        self.i += 1;
                        return Ok(());
                    }
                    loop {
                        self.value()?;
                        self.ws();
                        match self.b.get(self.i) {
                            Some(b',') => self.i += 1,
                            Some(b']') => {
                                self.i += 1;
                                return Ok(());
                            }
                            _ => return Err("',' or ']' expected".into()),
                        }
                    }
                }
                Some(b'"') => self.string().map(|_| ()),
                Some(_) => {
                    let start = self.i;
                    while self.i < self.b.len() && !matches!(self.b[self.i], b',' | b'}' | b']' | b' ' | b'\n' | b'\r' | b'\t') {
                        self.i += 1;
                    }
                    let s = std::str::from_utf8(&self.b[start..self.i]).map_err(|e| e.to_string())?;
                    serde_json::from_str::<J>(s).map(|_| ()).map_err(|e| e.to_string())
                }
                None => Err("value expected".into()),
            }
        }
    }
    let mut p = P { b: text.as_bytes(), i: 0 };
    p.value()?;
    p.ws();
    if p.i != text.len() {
        return Err("trailing characters".into());
    }
    Ok(())
}
