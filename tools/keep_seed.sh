#!/bin/bash
# keep_seed.sh <ID> <variant> "<what it needs to manifest>"  -- verifies and stores /verif/seeded/<ID><variant>/
id=$1; x=$2; needs=$3
out=/verif/seeded/$id$x; mkdir -p $out
res=$(/verif/tools/verify_seed.sh $id $x 2>&1)
echo "$res"
echo "$res" | grep -q "suite_with_change: [0-9]* passed 0 failed" || { echo "NOT KEPT: suite"; rm -rf $out; exit 1; }
echo "$res" | grep "demo_with_change" | grep -q "FAILED" || { echo "NOT KEPT: demo does not fail with change"; rm -rf $out; exit 1; }
echo "$res" | grep "demo_without_change" | grep -q "test result: ok" || { echo "NOT KEPT: demo does not pass without change"; rm -rf $out; exit 1; }
cp /tmp/wt/$id/SEEDED/$x/patch.diff /tmp/wt/$id/SEEDED/$x/demo.rs $out/
cp /tmp/wt/$id/SEEDED/$x/notes.md $out/notes.md 2>/dev/null
python3 - "$id" "$x" "$needs" "$res" <<'PY'
import json,sys
id,x,needs,res=sys.argv[1:5]
json.dump({"property":id,"variant":x,"needs_to_manifest":needs,
 "origin":"independent sub-agent given only the property text and a scratch worktree",
 "confirmed_by_me":{"commands":["git apply patch.diff","cargo test --workspace --offline (suite with change)","cargo test -p apache-avro --all-features --test demo_seeded (with change, then without)"],"results":res.strip().split("\n")},
 "detected_by":"(filled in when the checks are run against it)"}, open(f"/verif/seeded/{id}{x}/meta.json","w"), indent=1)
PY
echo KEPT $out
