//! Schema evolution generator: every single evolution step applied at every applicable node of a
//! writer schema (JSON), giving reader schemas. Steps are labelled; `safe` marks the steps the
//! specification defines as always readable.

use serde_json::{json, Value as J};

#[derive(Clone, Debug)]
pub struct Step {
    pub name: &'static str,
    /// always-safe by the specification (numeric promotion, reader field added with a default, field
    /// removed or reordered, reader union branch or enum symbol added)
    pub safe: bool,
    pub reader: J,
}

fn st(name: &'static str, safe: bool, reader: J) -> Step {
    Step { name, safe, reader }
}

const PRIMS: [&str; 8] = ["null", "boolean", "int", "long", "float", "double", "bytes", "string"];

fn is_prim(s: &str) -> bool {
    PRIMS.contains(&s)
}

pub struct Gen {
    n: usize,
}

impl Gen {
    pub fn new() -> Self {
        Gen { n: 0 }
    }
    fn fresh(&mut self, p: &str) -> String {
        self.n += 1;
        format!("{p}New{}", self.n)
    }

    /// All one-step variants of schema `j`.
    pub fn variants(&mut self, j: &J) -> Vec<Step> {
        let mut out = vec![];
        match j {
            J::String(p) if is_prim(p) => {
                let promos: &[&str] = match p.as_str() {
                    "int" => &["long", "float", "double"],
                    "long" => &["float", "double"],
                    "float" => &["double"],
                    _ => &[],
                };
                for t in promos {
                    out.push(st("promote", true, json!(t)));
                }
                match p.as_str() {
                    "string" => out.push(st("string-to-bytes", false, json!("bytes"))),
                    "bytes" => out.push(st("bytes-to-string", false, json!("string"))),
                    "long" => out.push(st("narrow", false, json!("int"))),
                    "double" => out.push(st("narrow", false, json!("float"))),
                    "float" => out.push(st("narrow", false, json!("long"))),
                    "int" => out.push(st("add-logical", false, json!({"type":"int","logicalType":"date"}))),
                    _ => {}
                }
                if p != "null" {
                    out.push(st("kind-change", false, json!(if p == "string" { "int" } else { "string" })));
                    out.push(st("wrap-in-union-null-first", true, json!(["null", p])));
                    out.push(st("wrap-in-union-null-last", true, json!([p, "null"])));
                }
            }
            J::String(_) => {
                // reference to a named type: only wrapping applies
                out.push(st("wrap-in-union-null-first", true, json!(["null", j])));
            }
            J::Array(branches) => {
                for (i, b) in branches.iter().enumerate() {
                    for v in self.variants(b) {
                        if v.name.starts_with("wrap-in-union") {
                            continue; // no nested unions
                        }
                        let mut nb = branches.clone();
                        nb[i] = v.reader;
                        if union_legal(&nb) {
                            out.push(Step { name: v.name, safe: v.safe, reader: J::Array(nb) });
                        }
                    }
                }
                // add a branch (new named fixed never clashes by kind)
                let newf = json!({"type":"fixed","name": self.fresh("F"),"size":2});
                let mut app = branches.clone();
                app.push(newf.clone());
                out.push(st("add-union-branch-last", true, J::Array(app)));
                let mut pre = vec![newf];
                pre.extend(branches.iter().cloned());
                out.push(st("add-union-branch-first", true, J::Array(pre)));
                if branches.len() > 1 {
                    for i in 0..branches.len() {
                        let mut nb = branches.clone();
                        nb.remove(i);
                        out.push(st("remove-union-branch", false, J::Array(nb)));
                    }
                    let mut rev = branches.clone();
                    rev.reverse();
                    out.push(st("reorder-union-branches", true, J::Array(rev)));
                    // unwrap: reader is one of the branches
                    for b in branches {
                        out.push(st("unwrap-from-union", false, b.clone()));
                    }
                }
            }
            J::Object(o) => {
                let ty = o.get("type").and_then(|t| t.as_str()).unwrap_or("");
                if o.contains_key("logicalType") {
                    let mut plain = o.clone();
                    plain.remove("logicalType");
                    plain.remove("precision");
                    plain.remove("scale");
                    let reader = if is_prim(ty) { json!(ty) } else { J::Object(plain) };
                    out.push(st("drop-logical", false, reader));
                }
                match ty {
                    "array" | "map" => {
                        let key = if ty == "array" { "items" } else { "values" };
                        if let Some(inner) = o.get(key) {
                            for v in self.variants(inner) {
                                let mut no = o.clone();
                                no.insert(key.into(), v.reader);
                                out.push(Step { name: v.name, safe: v.safe, reader: J::Object(no) });
                            }
                        }
                        out.push(st("kind-change", false, json!("string")));
                        out.push(st("wrap-in-union-null-first", true, json!(["null", j])));
                    }
                    "enum" => {
                        let syms: Vec<J> = o.get("symbols").and_then(|s| s.as_array()).cloned().unwrap_or_default();
                        let with = |k: &str, v: J| {
                            let mut no = o.clone();
                            no.insert(k.into(), v);
                            J::Object(no)
                        };
                        let mut more = syms.clone();
                        more.push(json!("ZNEW"));
                        out.push(st("add-enum-symbol", true, with("symbols", J::Array(more))));
                        if syms.len() > 1 {
                            let fewer: Vec<J> = syms[..syms.len() - 1].to_vec();
                            out.push(st("remove-enum-symbol", false, with("symbols", J::Array(fewer.clone()))));
                            let mut no = o.clone();
                            no.insert("symbols".into(), J::Array(fewer.clone()));
                            no.insert("default".into(), fewer[0].clone());
                            out.push(st("remove-enum-symbol-with-default", false, J::Object(no)));
                            let mut rev = syms.clone();
                            rev.reverse();
                            out.push(st("reorder-enum-symbols", true, with("symbols", J::Array(rev))));
                        }
                        if !o.contains_key("default") && !syms.is_empty() {
                            out.push(st("add-enum-default", true, with("default", syms[0].clone())));
                        }
                        self.renames(o, &mut out);
                        out.push(st("wrap-in-union-null-first", true, json!(["null", j])));
                    }
                    "fixed" => {
                        let size = o.get("size").and_then(|s| s.as_u64()).unwrap_or(1);
                        let mut no = o.clone();
                        no.insert("size".into(), json!(size + 1));
                        out.push(st("fixed-size-change", false, J::Object(no)));
                        if !o.contains_key("logicalType") {
                            self.renames(o, &mut out);
                        }
                        out.push(st("wrap-in-union-null-first", true, json!(["null", j])));
                    }
                    "record" => {
                        let fields: Vec<J> = o.get("fields").and_then(|f| f.as_array()).cloned().unwrap_or_default();
                        let with_fields = |fs: Vec<J>| {
                            let mut no = o.clone();
                            no.insert("fields".into(), J::Array(fs));
                            J::Object(no)
                        };
                        for (i, f) in fields.iter().enumerate() {
                            if let Some(ft) = f.get("type") {
                                for v in self.variants(ft) {
                                    let mut nf = f.clone();
                                    nf["type"] = v.reader;
                                    // a field default must keep conforming; drop it when the type changes.
                                    // Dropping a default is only safe when the writer has the field, which a
                                    // later step cannot know: such a step is not claimed always-safe.
                                    // Both readers are produced: with the default kept (a reader whose default
                                    // no longer conforms is not well formed and is skipped by the checks) and
                                    // with it dropped.
                                    let mut had_default = false;
                                    if nf.get("default").is_some() {
                                        let mut fs = fields.clone();
                                        fs[i] = nf.clone();
                                        out.push(Step { name: v.name, safe: v.safe, reader: with_fields(fs) });
                                    }
                                    if let Some(m) = nf.as_object_mut() {
                                        had_default = m.remove("default").is_some();
                                    }
                                    let mut fs = fields.clone();
                                    fs[i] = nf;
                                    out.push(Step { name: v.name, safe: v.safe && !had_default, reader: with_fields(fs) });
                                }
                            }
                            // remove
                            let mut fs = fields.clone();
                            fs.remove(i);
                            out.push(st("remove-field", true, with_fields(fs)));
                            // rename with / without alias
                            let old = f.get("name").and_then(|n| n.as_str()).unwrap_or("f").to_string();
                            let mut nf = f.clone();
                            nf["name"] = json!(format!("{old}_renamed"));
                            let mut fs = fields.clone();
                            fs[i] = nf.clone();
                            out.push(st("rename-field-without-alias", false, with_fields(fs)));
                            nf["aliases"] = json!([old]);
                            let mut fs = fields.clone();
                            fs[i] = nf;
                            out.push(st("rename-field-with-alias", false, with_fields(fs)));
                        }
                        if fields.len() > 1 {
                            let mut rev = fields.clone();
                            rev.reverse();
                            out.push(st("reorder-fields", true, with_fields(rev)));
                        }
                        // add fields with defaults of every JSON kind
                        let en = self.fresh("E");
                        let rn = self.fresh("R");
                        let fxn = self.fresh("X");
                        let adds: Vec<(&'static str, J)> = vec![
                            ("add-field-default-int", json!({"name":"zi","type":"int","default":7})),
                            ("add-field-default-long", json!({"name":"zl","type":"long","default":-5000000000i64})),
                            ("add-field-default-double", json!({"name":"zd","type":"double","default":1.5})),
                            ("add-field-default-float-from-int", json!({"name":"zf","type":"float","default":2})),
                            ("add-field-default-bool", json!({"name":"zb","type":"boolean","default":true})),
                            ("add-field-default-string", json!({"name":"zs","type":"string","default":"d\u{e9}f"})),
                            ("add-field-default-bytes", json!({"name":"zy","type":"bytes","default":"\u{0}\u{ff}a"})),
                            ("add-field-default-null", json!({"name":"zn","type":"null","default":null})),
                            ("add-field-default-nullable", json!({"name":"zo","type":["null","string"],"default":null})),
                            ("add-field-default-union-first-nonnull", json!({"name":"zu","type":["int","null"],"default":3})),
                            ("add-field-default-union-second-branch", json!({"name":"zv","type":["null","int"],"default":5})),
                            ("add-field-default-union-later-branch", json!({"name":"zw","type":["string","boolean","int"],"default":123})),
                            ("add-field-default-array", json!({"name":"za","type":{"type":"array","items":"long"},"default":[1,2]})),
                            ("add-field-default-empty-map", json!({"name":"zm","type":{"type":"map","values":"string"},"default":{}})),
                            ("add-field-default-map", json!({"name":"zm","type":{"type":"map","values":"string"},"default":{"k":"v"}})),
                            ("add-field-default-enum", json!({"name":"ze","type":{"type":"enum","name":en,"symbols":["P","Q"]},"default":"Q"})),
                            ("add-field-default-fixed", json!({"name":"zx","type":{"type":"fixed","name":fxn,"size":2},"default":"\u{1}\u{fe}"})),
                            ("add-field-default-record", json!({"name":"zr","type":{"type":"record","name":rn,"fields":[{"name":"p","type":"int"},{"name":"q","type":"string","default":"qq"}]},"default":{"p":1}})),
                        ];
                        for (name, f) in adds {
                            let mut fs = fields.clone();
                            fs.push(f.clone());
                            out.push(st(name, true, with_fields(fs)));
                            if name == "add-field-default-int" {
                                let mut fs = vec![f];
                                fs.extend(fields.iter().cloned());
                                out.push(st("add-field-default-int-first", true, with_fields(fs)));
                            }
                        }
                        let mut fs = fields.clone();
                        fs.push(json!({"name":"znodef","type":"int"}));
                        out.push(st("add-field-without-default", false, with_fields(fs)));
                        self.renames(o, &mut out);
                        out.push(st("wrap-in-union-null-first", true, json!(["null", j])));
                    }
                    other if is_prim(other) && !o.contains_key("logicalType") => {
                        // {"type":"int"} object form: treat like the primitive
                        for v in self.variants(&json!(other)) {
                            out.push(v);
                        }
                    }
                    _ => {}
                }
            }
            _ => {}
        }
        out
    }

    fn renames(&mut self, o: &serde_json::Map<String, J>, out: &mut Vec<Step>) {
        let old = o.get("name").and_then(|n| n.as_str()).unwrap_or("N").to_string();
        let mut no = o.clone();
        no.insert("name".into(), json!(format!("{old}Renamed")));
        out.push(st("rename-type-without-alias", false, J::Object(no.clone())));
        no.insert("aliases".into(), json!([old]));
        out.push(st("rename-type-with-alias", false, J::Object(no)));
    }
}

fn union_key(b: &J) -> String {
    match b {
        J::String(s) => s.clone(),
        J::Object(o) => match o.get("type").and_then(|t| t.as_str()) {
            Some(t @ ("array" | "map")) => t.to_string(),
            Some("record" | "enum" | "fixed") => format!("named:{}", o.get("name").and_then(|n| n.as_str()).unwrap_or("")),
            Some(t) => t.to_string(),
            None => "?".into(),
        },
        J::Array(_) => "union".into(),
        _ => "?".into(),
    }
}

fn union_legal(branches: &[J]) -> bool {
    let keys: Vec<String> = branches.iter().map(union_key).collect();
    for (i, k) in keys.iter().enumerate() {
        if k == "union" || keys[i + 1..].contains(k) {
            return false;
        }
    }
    true
}

/// Base writer schemas: small rich schemas covering every kind.
pub fn bases() -> Vec<(&'static str, J)> {
    vec![
        ("int", json!("int")),
        ("long", json!("long")),
        ("float", json!("float")),
        ("string", json!("string")),
        ("bytes", json!("bytes")),
        ("date", json!({"type":"int","logicalType":"date"})),
        ("ts-millis", json!({"type":"long","logicalType":"timestamp-millis"})),
        ("decimal-bytes", json!({"type":"bytes","logicalType":"decimal","precision":6,"scale":2})),
        ("uuid-string", json!({"type":"string","logicalType":"uuid"})),
        ("duration", json!({"type":"fixed","name":"Dur","size":12,"logicalType":"duration"})),
        ("enum", json!({"type":"enum","name":"Color","symbols":["RED","GREEN","BLUE"]})),
        ("enum-default", json!({"type":"enum","name":"Suit","symbols":["H","S","C"],"default":"S"})),
        ("fixed", json!({"type":"fixed","name":"Hash","size":2})),
        ("array-int", json!({"type":"array","items":"int"})),
        ("map-long", json!({"type":"map","values":"long"})),
        ("nullable-int", json!(["null","int"])),
        ("union-int-string", json!(["int","string"])),
        ("union-long-int", json!(["long","int"])),
        ("union-null-enum", json!(["null",{"type":"enum","name":"Suit","symbols":["HEARTS","SPADES","CLUBS"]}])),
        ("rec-prims", json!({"type":"record","name":"P","fields":[{"name":"a","type":"int"},{"name":"b","type":"long"},{"name":"c","type":"float"},{"name":"d","type":"string"},{"name":"e","type":"bytes"}]})),
        ("rec-named", json!({"type":"record","name":"N","namespace":"ns","fields":[{"name":"color","type":{"type":"enum","name":"Color","symbols":["RED","GREEN"]}},{"name":"hash","type":{"type":"fixed","name":"Hash","size":2}},{"name":"inner","type":{"type":"record","name":"Inner","fields":[{"name":"x","type":"long"}]}}]})),
        ("rec-coll", json!({"type":"record","name":"C","fields":[{"name":"xs","type":{"type":"array","items":"int"}},{"name":"m","type":{"type":"map","values":"string"}},{"name":"opt","type":["null","int"]},{"name":"u","type":["int","string"]}]})),
        ("rec-enum-field-default", json!({"type":"record","name":"Card","fields":[{"name":"suit","type":{"type":"enum","name":"Suit","symbols":["HEARTS","SPADES","CLUBS"]},"default":"SPADES"},{"name":"n","type":"int","default":1}]})),
        ("rec-recursive", json!({"type":"record","name":"L","fields":[{"name":"v","type":"int"},{"name":"next","type":["null","L"]}]})),
    ]
}
