//! Parsing Canonical Form and CRC-64-AVRO, written from the specification ("Transforming into
//! Parsing Canonical Form", "Schema Fingerprints"). Works on the original JSON; never calls the library.

use crate::ast::{full_name, join, primitive};
use serde_json::Value as J;

fn q(s: &str, out: &mut String) {
    out.push('"');
    for c in s.chars() {
        match c {
            '"' => out.push_str("\\\""),
            '\\' => out.push_str("\\\\"),
            c => out.push(c),
        }
    }
    out.push('"');
}

fn ref_name(s: &str, enclosing: Option<&str>) -> String {
    if s.contains('.') {
        s.trim_start_matches('.').to_string()
    } else {
        join(&enclosing.map(|x| x.to_string()), s)
    }
}

pub fn pcf_into(j: &J, enclosing: Option<&str>, out: &mut String) -> Result<(), String> {
    match j {
        J::String(s) => {
            if primitive(s).is_some() {
                q(s, out)
            } else {
                q(&ref_name(s, enclosing), out)
            }
            Ok(())
        }
        J::Array(a) => {
            out.push('[');
            for (i, x) in a.iter().enumerate() {
                if i > 0 {
                    out.push(',');
                }
                pcf_into(x, enclosing, out)?;
            }
            out.push(']');
            Ok(())
        }
        J::Object(o) => {
            let ty = o.get("type").ok_or("no type")?;
            let t = match ty {
                J::String(t) => t.as_str(),
                other => return pcf_into(other, enclosing, out),
            };
            if primitive(t).is_some() {
                // [PRIMITIVES] simple form; [STRIP] drops logicalType, precision, scale, ...
                q(t, out);
                return Ok(());
            }
            match t {
                "array" => {
                    out.push_str("{\"type\":\"array\",\"items\":");
                    pcf_into(o.get("items").ok_or("no items")?, enclosing, out)?;
                    out.push('}');
                }
                "map" => {
                    out.push_str("{\"type\":\"map\",\"values\":");
                    pcf_into(o.get("values").ok_or("no values")?, enclosing, out)?;
                    out.push('}');
                }
                "record" | "error" | "enum" | "fixed" => {
                    let name = o.get("name").and_then(|n| n.as_str()).ok_or("no name")?;
                    let (ns, simple) = full_name(name, o.get("namespace").and_then(|n| n.as_str()), enclosing);
                    let full = join(&ns, &simple);
                    out.push_str("{\"name\":");
                    q(&full, out);
                    out.push_str(",\"type\":");
                    q(t, out);
                    match t {
                        "enum" => {
                            out.push_str(",\"symbols\":[");
                            for (i, s) in o.get("symbols").and_then(|s| s.as_array()).ok_or("no symbols")?.iter().enumerate() {
                                if i > 0 {
                                    out.push(',');
                                }
                                q(s.as_str().ok_or("symbol")?, out);
                            }
                            out.push(']');
                        }
                        "fixed" => {
                            out.push_str(",\"size\":");
                            let size = o.get("size").ok_or("no size")?;
                            // [INTEGERS] no quotes, no leading zeros
                            let n: u64 = match size {
                                J::Number(n) => n.as_u64().ok_or("size")?,
                                J::String(s) => s.trim_start_matches('0').parse().unwrap_or(0),
                                _ => return Err("size".into()),
                            };
                            out.push_str(&n.to_string());
                        }
                        _ => {
                            out.push_str(",\"fields\":[");
                            for (i, f) in o.get("fields").and_then(|s| s.as_array()).ok_or("no fields")?.iter().enumerate() {
                                if i > 0 {
                                    out.push(',');
                                }
                                let fo = f.as_object().ok_or("field")?;
                                out.push_str("{\"name\":");
                                q(fo.get("name").and_then(|n| n.as_str()).ok_or("field name")?, out);
                                out.push_str(",\"type\":");
                                pcf_into(fo.get("type").ok_or("field type")?, ns.as_deref(), out)?;
                                out.push('}');
                            }
                            out.push(']');
                        }
                    }
                    out.push('}');
                }
                other => q(&ref_name(other, enclosing), out),
            }
            Ok(())
        }
        _ => Err("not a schema".into()),
    }
}

pub fn pcf(j: &J) -> Result<String, String> {
    let mut out = String::new();
    pcf_into(j, None, &mut out)?;
    Ok(out)
}

pub const EMPTY64: u64 = 0xc15d213aa4d7a795;

/// CRC-64-AVRO, bit by bit (no table).
pub fn crc64_avro(bytes: &[u8]) -> u64 {
    let mut fp = EMPTY64;
    for &b in bytes {
        fp ^= b as u64;
        for _ in 0..8 {
            fp = (fp >> 1) ^ (EMPTY64 & (fp & 1).wrapping_neg());
        }
    }
    fp
}

/// CRC-32 (IEEE 802.3), bit by bit.
pub fn crc32(bytes: &[u8]) -> u32 {
    let mut c: u32 = 0xffff_ffff;
    for &b in bytes {
        c ^= b as u32;
        for _ in 0..8 {
            c = (c >> 1) ^ (0xedb8_8320 & (c & 1).wrapping_neg());
        }
    }
    !c
}

pub fn self_test() {
    // empty input fingerprint is EMPTY
    assert_eq!(crc64_avro(b""), EMPTY64);
    // well-known vectors for the canonical forms of primitives (Avro's test suite)
    assert_eq!(crc64_avro(b"\"int\""), 0x7275d51a3f395c8f, "int fingerprint");
    assert_eq!(crc64_avro(b"\"null\""), 0x63dd24e7cc258f8a, "null fingerprint");
    assert_eq!(crc32(b"123456789"), 0xcbf43926);
    // spec example shapes
    let j: J = serde_json::from_str(r#"{"type":"record","name":"R","namespace":"a.b","doc":"x","fields":[{"name":"f","type":{"type":"fixed","size":"012","name":"F","aliases":["G"]},"default":1},{"name":"g","type":"F","order":"descending"},{"name":"h","type":{"type":"int","logicalType":"date"}}]}"#).unwrap();
    assert_eq!(
        pcf(&j).unwrap(),
        r#"{"name":"a.b.R","type":"record","fields":[{"name":"f","type":{"name":"a.b.F","type":"fixed","size":12}},{"name":"g","type":"a.b.F"},{"name":"h","type":"int"}]}"#
    );
}
