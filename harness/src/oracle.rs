//! Reference codecs: a long-lived python3 process (zlib raw deflate, bz2, lzma, zstd CLI) and an
//! independent raw-snappy decoder / literal-only encoder.

use crate::ev;
use std::io::{BufRead, BufReader, Write};
use std::process::{Child, ChildStdin, ChildStdout, Command, Stdio};

pub struct CodecOracle {
    _child: Child,
    stdin: ChildStdin,
    stdout: BufReader<ChildStdout>,
}

impl CodecOracle {
    pub fn start() -> CodecOracle {
        let script = format!("{}/ref/codec_oracle.py", ev::VERIF_DIR);
        let mut child = Command::new("python3").arg(&script).stdin(Stdio::piped()).stdout(Stdio::piped()).spawn().unwrap_or_else(|e| ev::machinery(&format!("cannot start python3 {script}: {e}")));
        let stdin = child.stdin.take().unwrap();
        let stdout = BufReader::new(child.stdout.take().unwrap());
        CodecOracle { _child: child, stdin, stdout }
    }

    /// op: 'c' compress, 'd' decompress. Err(message) when the reference codec rejects the input.
    pub fn call(&mut self, op: char, codec: &str, level: i32, data: &[u8]) -> Result<Vec<u8>, String> {
        let hex: String = data.iter().map(|b| format!("{b:02x}")).collect();
        if writeln!(self.stdin, "{op} {codec} {level} {hex}").is_err() || self.stdin.flush().is_err() {
            ev::machinery("codec oracle: write failed");
        }
        let mut line = String::new();
        if self.stdout.read_line(&mut line).unwrap_or(0) == 0 {
            ev::machinery("codec oracle: no answer");
        }
        let line = line.trim_end();
        if let Some(h) = line.strip_prefix("OK") {
            let h = h.trim();
            Ok((0..h.len() / 2).map(|i| u8::from_str_radix(&h[2 * i..2 * i + 2], 16).unwrap()).collect())
        } else {
            Err(line.trim_start_matches("ERR").trim().to_string())
        }
    }
}

/// Decode a raw snappy stream (format description: google/snappy format_description.txt).
pub fn snappy_decode(src: &[u8]) -> Result<Vec<u8>, String> {
    let mut i = 0usize;
    // preamble: uncompressed length as a varint
    let mut len: u64 = 0;
    let mut shift = 0;
    loop {
        let b = *src.get(i).ok_or("truncated length")?;
        i += 1;
        len |= ((b & 0x7f) as u64) << shift;
        if b & 0x80 == 0 {
            break;
        }
        shift += 7;
        if shift > 35 {
            return Err("length varint too long".into());
        }
    }
    if len > 1 << 30 {
        return Err("declared length too large for the reference decoder".into());
    }
    let mut out: Vec<u8> = Vec::with_capacity(len as usize);
    while i < src.len() {
        let tag = src[i];
        i += 1;
        match tag & 3 {
            0 => {
                let mut n = (tag >> 2) as usize;
                if n >= 60 {
                    let extra = n - 59;
                    if i + extra > src.len() {
                        return Err("truncated literal length".into());
                    }
                    n = 0;
                    for k in 0..extra {
                        n |= (src[i + k] as usize) << (8 * k);
                    }
                    i += extra;
                }
                let n = n + 1;
                if i + n > src.len() {
                    return Err("truncated literal".into());
                }
                out.extend_from_slice(&src[i..i + n]);
                i += n;
            }
            kind => {
                let (n, off) = match kind {
                    1 => {
                        let b = *src.get(i).ok_or("truncated copy")? as usize;
                        i += 1;
                        (4 + ((tag >> 2) & 7) as usize, (((tag >> 5) as usize) << 8) | b)
                    }
                    2 => {
                        if i + 2 > src.len() {
                            return Err("truncated copy".into());
                        }
                        let off = src[i] as usize | (src[i + 1] as usize) << 8;
                        i += 2;
                        ((tag >> 2) as usize + 1, off)
                    }
                    _ => {
                        if i + 4 > src.len() {
                            return Err("truncated copy".into());
                        }
                        let off = src[i] as usize | (src[i + 1] as usize) << 8 | (src[i + 2] as usize) << 16 | (src[i + 3] as usize) << 24;
                        i += 4;
                        ((tag >> 2) as usize + 1, off)
                    }
                };
                if off == 0 || off > out.len() {
                    return Err("copy offset out of range".into());
                }
                for _ in 0..n {
                    let b = out[out.len() - off];
                    out.push(b);
                }
            }
        }
        if out.len() as u64 > len {
            return Err("output longer than declared".into());
        }
    }
    if out.len() as u64 != len {
        return Err(format!("declared {len} bytes, produced {}", out.len()));
    }
    Ok(out)
}

/// Encode as a raw snappy stream using literals only (valid, just not compressed).
pub fn snappy_encode_literals(data: &[u8]) -> Vec<u8> {
    let mut out = vec![];
    let mut n = data.len() as u64;
    loop {
        let b = (n & 0x7f) as u8;
        n >>= 7;
        if n == 0 {
            out.push(b);
            break;
        }
        out.push(b | 0x80);
    }
    for chunk in data.chunks(65536) {
        let l = chunk.len() - 1;
        if l < 60 {
            out.push((l as u8) << 2);
        } else if l < 256 {
            out.push(60 << 2);
            out.push(l as u8);
        } else {
            out.push(61 << 2);
            out.push((l & 0xff) as u8);
            out.push((l >> 8) as u8);
        }
        out.extend_from_slice(chunk);
    }
    out
}

pub fn self_test() {
    let data = b"hello hello hello hello snappy";
    assert_eq!(snappy_decode(&snappy_encode_literals(data)).unwrap(), data);
    assert_eq!(snappy_decode(&snappy_encode_literals(b"")).unwrap(), b"");
    // a stream with a copy: "abcabcabc" = literal "abc" + copy(len 6, offset 3)
    let s = vec![9, 2 << 2, b'a', b'b', b'c', ((6 - 4) << 2) | 1, 3];
    assert_eq!(snappy_decode(&s).unwrap(), b"abcabcabc");
}
