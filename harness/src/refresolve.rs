//! Schema resolution written from the specification's "Schema Resolution" section, over the
//! harness AST. `resolve(w, r, v)` gives the value the rules prescribe, or `Err` where the rules
//! give no result. Never calls the library.

use crate::ast::{Env, Lt, F, S};
use crate::val::V;
use num_bigint::BigInt;
use serde_json::Value as J;

pub struct Ctx<'a> {
    pub wenv: &'a Env,
    pub renv: &'a Env,
}

fn simple(full: &str) -> &str {
    full.rsplit('.').next().unwrap_or(full)
}

/// "names match": unqualified names equal, or a reader alias (full or unqualified) names the writer.
fn names_match(wfull: &str, rfull: &str, raliases: &[String]) -> bool {
    simple(wfull) == simple(rfull) || raliases.iter().any(|a| a == wfull || simple(a) == simple(wfull))
}

/// Underlying (non-logical) schema.
fn base<'a>(s: &'a S, env: &'a Env) -> &'a S {
    match s.deref(env) {
        S::Logical(_, b) => b.deref(env),
        other => other,
    }
}

/// The spec's shallow "schemas match" predicate, used to select union branches.
/// Returns 2 for an exact match (same type, and same name for named types), 1 for a match through
/// promotion or alias, 0 for no match.
pub fn matches(w: &S, r: &S, cx: &Ctx) -> u8 {
    let (wb, rb) = (base(w, cx.wenv), base(r, cx.renv));
    match (wb, rb) {
        (S::Null, S::Null) | (S::Boolean, S::Boolean) | (S::Int, S::Int) | (S::Long, S::Long) | (S::Float, S::Float) | (S::Double, S::Double) | (S::Bytes, S::Bytes) | (S::String, S::String) => 2,
        (S::Int, S::Long | S::Float | S::Double) | (S::Long, S::Float | S::Double) | (S::Float, S::Double) | (S::String, S::Bytes) | (S::Bytes, S::String) => 1,
        (S::Array(_), S::Array(_)) | (S::Map(_), S::Map(_)) => 2,
        (S::Enum { full: wf, .. }, S::Enum { full: rf, aliases, .. }) => {
            if simple(wf) == simple(rf) {
                2
            } else if names_match(wf, rf, aliases) {
                1
            } else {
                0
            }
        }
        (S::Fixed { full: wf, size: ws, .. }, S::Fixed { full: rf, size: rs, aliases }) => {
            if ws != rs {
                0
            } else if simple(wf) == simple(rf) {
                2
            } else if names_match(wf, rf, aliases) {
                1
            } else {
                0
            }
        }
        (S::Record { full: wf, .. }, S::Record { full: rf, aliases, .. }) => {
            if simple(wf) == simple(rf) {
                2
            } else if names_match(wf, rf, aliases) {
                1
            } else {
                0
            }
        }
        _ => 0,
    }
}

/// Reader-union branches acceptable for writer schema `w`: the first matching branch (spec text)
/// and the first exactly-matching branch (reference implementation).
pub fn acceptable_branches(w: &S, rbranches: &[S], cx: &Ctx) -> Vec<usize> {
    let mut out = vec![];
    if let Some(i) = rbranches.iter().position(|b| matches(w, b, cx) > 0) {
        out.push(i);
    }
    if let Some(i) = rbranches.iter().position(|b| matches(w, b, cx) == 2) {
        if !out.contains(&i) {
            out.push(i);
        }
    }
    out
}

#[derive(Debug, Clone)]
pub struct NoResult(pub String);

fn no<T>(s: impl Into<String>) -> Result<T, NoResult> {
    Err(NoResult(s.into()))
}

/// All acceptable results (more than one only where the union rule is ambiguous between the
/// specification text and the reference implementation).
pub fn resolve(w: &S, r: &S, v: &V, cx: &Ctx) -> Result<Vec<V>, NoResult> {
    let wd = w.deref(cx.wenv);
    let rd = r.deref(cx.renv);
    // writer union: resolve the branch actually written
    if let (S::Union(wbr), V::Union(i, inner)) = (wd, v) {
        let wb = &wbr[*i];
        return resolve(wb, r, inner, cx);
    }
    // reader union, writer not a union
    if let S::Union(rbr) = rd {
        let cands = acceptable_branches(w, rbr, cx);
        if cands.is_empty() {
            return no("no reader union branch matches the writer's schema");
        }
        let mut out = vec![];
        let mut last_err = None;
        for j in cands {
            match resolve(w, &rbr[j], v, cx) {
                Ok(vs) => out.extend(vs.into_iter().map(|x| V::Union(j, Box::new(x)))),
                Err(e) => last_err = Some(e),
            }
        }
        return if out.is_empty() { Err(last_err.unwrap()) } else { Ok(out) };
    }
    let (wb, rb) = (base(wd, cx.wenv), base(rd, cx.renv));
    let one = |x: V| Ok(vec![x]);
    // logical types: the value model keeps the underlying representation for date/time types; for
    // decimal/uuid/duration/big-decimal the reader's logical type decides the representation.
    let rlog = match rd {
        S::Logical(l, _) => Some(l.clone()),
        _ => None,
    };
    let wlog = match wd {
        S::Logical(l, _) => Some(l.clone()),
        _ => None,
    };
    match (wb, rb) {
        (S::Null, S::Null) => one(V::Null),
        (S::Boolean, S::Boolean) => one(v.clone()),
        (S::Int, S::Int) | (S::Long, S::Long) | (S::Float, S::Float) | (S::Double, S::Double) => one(v.clone()),
        (S::Int, S::Long) => match v {
            V::Int(i) => one(V::Long(*i as i64)),
            _ => no("int value expected"),
        },
        (S::Int, S::Float) => match v {
            V::Int(i) => one(V::Float((*i as f32).to_bits())),
            _ => no("int value expected"),
        },
        (S::Int, S::Double) => match v {
            V::Int(i) => one(V::Double((*i as f64).to_bits())),
            _ => no("int value expected"),
        },
        (S::Long, S::Float) => match v {
            V::Long(i) => one(V::Float((*i as f32).to_bits())),
            _ => no("long value expected"),
        },
        (S::Long, S::Double) => match v {
            V::Long(i) => one(V::Double((*i as f64).to_bits())),
            _ => no("long value expected"),
        },
        (S::Float, S::Double) => match v {
            V::Float(b) => one(V::Double((f32::from_bits(*b) as f64).to_bits())),
            _ => no("float value expected"),
        },
        (S::Bytes, S::Bytes) | (S::String, S::String) | (S::String, S::Bytes) | (S::Bytes, S::String) => {
            // bring to raw bytes, then to the reader's representation
            let raw: Vec<u8> = match (v, &wlog) {
                (V::Bytes(b), _) => b.clone(),
                (V::Str(s), _) => s.as_bytes().to_vec(),
                (V::Decimal(n), _) => n.to_signed_bytes_be(),
                (V::Uuid(u), _) => match wb {
                    S::String => crate::val::uuid_canonical_text(u).into_bytes(),
                    _ => u.to_vec(),
                },
                (V::BigDec(..), _) => {
                    // big-decimal read as big-decimal is the identity; every other evolution of it would
                    // need its payload format, which is not part of the specification: no verdict
                    if matches!(rlog, Some(Lt::BigDecimal)) {
                        return one(v.clone());
                    }
                    return no("OUTSIDE-MODEL: big-decimal read as another type");
                }
                _ => return no("bytes/string value expected"),
            };
            match (&rlog, rb) {
                (Some(Lt::Decimal { .. }), _) => {
                    // zero bytes denote zero (as when such a datum is decoded without a reader schema)
                    one(V::Decimal(BigInt::from_signed_bytes_be(&raw)))
                }
                (Some(Lt::Uuid), S::String) => match std::str::from_utf8(&raw).ok().and_then(crate::refbin::parse_uuid_text) {
                    Some(u) => one(V::Uuid(u)),
                    None => no("not a uuid text"),
                },
                (Some(Lt::Uuid), _) => match <[u8; 16]>::try_from(raw.as_slice()) {
                    Ok(u) => one(V::Uuid(u)),
                    Err(_) => no("not 16 bytes"),
                },
                (Some(Lt::BigDecimal), _) => no("OUTSIDE-MODEL: another type read as big-decimal"),
                (_, S::String) => match String::from_utf8(raw) {
                    Ok(s) => one(V::Str(s)),
                    Err(_) => no("bytes are not valid UTF-8 for a string reader"),
                },
                _ => one(V::Bytes(raw)),
            }
        }
        (S::Array(wi), S::Array(ri)) => match v {
            V::Array(items) => {
                let mut out = vec![];
                for x in items {
                    out.push(first(resolve(wi, ri, x, cx)?));
                }
                one(V::Array(out))
            }
            _ => no("array value expected"),
        },
        (S::Map(wi), S::Map(ri)) => match v {
            V::Map(items) => {
                let mut out = vec![];
                for (k, x) in items {
                    out.push((k.clone(), first(resolve(wi, ri, x, cx)?)));
                }
                one(V::Map(out))
            }
            _ => no("map value expected"),
        },
        (S::Enum { full: wf, symbols: ws, .. }, S::Enum { full: rf, aliases, symbols: rs, default }) => {
            if !names_match(wf, rf, aliases) {
                return no("enum names do not match");
            }
            let V::Enum(i) = v else { return no("enum value expected") };
            let sym = &ws[*i];
            if let Some(j) = rs.iter().position(|s| s == sym) {
                one(V::Enum(j))
            } else if let Some(d) = default {
                match rs.iter().position(|s| s == d) {
                    Some(j) => one(V::Enum(j)),
                    None => no("enum default is not a symbol"),
                }
            } else {
                no("writer symbol is not in the reader's enum and the reader has no default")
            }
        }
        (S::Fixed { full: wf, size: wsz, .. }, S::Fixed { full: rf, size: rsz, aliases }) => {
            if !names_match(wf, rf, aliases) {
                return no("fixed names do not match");
            }
            if wsz != rsz {
                return no("fixed sizes differ");
            }
            let raw: Vec<u8> = match v {
                V::Fixed(b) => b.clone(),
                V::Decimal(n) => crate::val::sign_extend(n, *wsz),
                V::Uuid(u) => u.to_vec(),
                V::Duration(m, d, ms) => {
                    let mut b = vec![];
                    b.extend_from_slice(&m.to_le_bytes());
                    b.extend_from_slice(&d.to_le_bytes());
                    b.extend_from_slice(&ms.to_le_bytes());
                    b
                }
                _ => return no("fixed value expected"),
            };
            match &rlog {
                Some(Lt::Decimal { .. }) => one(V::Decimal(BigInt::from_signed_bytes_be(&raw))),
                Some(Lt::Uuid) => one(V::Uuid(raw.as_slice().try_into().map_err(|_| NoResult("uuid size".into()))?)),
                Some(Lt::Duration) => one(V::Duration(
                    u32::from_le_bytes(raw[0..4].try_into().unwrap()),
                    u32::from_le_bytes(raw[4..8].try_into().unwrap()),
                    u32::from_le_bytes(raw[8..12].try_into().unwrap()),
                )),
                _ => one(V::Fixed(raw)),
            }
        }
        (S::Record { full: wf, fields: wfs, .. }, S::Record { full: rf, aliases, fields: rfs }) => {
            if !names_match(wf, rf, aliases) {
                return no("record names do not match");
            }
            let V::Record(vals) = v else { return no("record value expected") };
            let mut out = vec![];
            for rfield in rfs {
                let wi = wfs.iter().position(|wfld| wfld.name == rfield.name).or_else(|| wfs.iter().position(|wfld| rfield.aliases.contains(&wfld.name)));
                match wi {
                    Some(i) => out.push(first(resolve(&wfs[i].ty, &rfield.ty, &vals[i], cx)?)),
                    None => match &rfield.default {
                        Some(d) => out.push(default_value(d, &rfield.ty, cx.renv).map_err(|e| NoResult(format!("default of {}: {e}", rfield.name)))?),
                        None => return no(format!("reader field {} has no counterpart and no default", rfield.name)),
                    },
                }
            }
            one(V::Record(out))
        }
        _ => no(format!("{} cannot be read as {}", wd.kind(), rd.kind())),
    }
}

fn first(mut v: Vec<V>) -> V {
    v.remove(0)
}

/// JSON default -> value, per the table in the specification's "Records" section.
pub fn default_value(d: &J, s: &S, env: &Env) -> Result<V, String> {
    let sd = s.deref(env);
    let bytes_of = |t: &str| -> Result<Vec<u8>, String> { t.chars().map(|c| if (c as u32) <= 255 { Ok(c as u32 as u8) } else { Err("code point above 255".to_string()) }).collect() };
    Ok(match sd {
        S::Null => {
            if d.is_null() {
                V::Null
            } else {
                return Err("null expected".into());
            }
        }
        S::Boolean => V::Bool(d.as_bool().ok_or("boolean expected")?),
        S::Int => V::Int(i32::try_from(d.as_i64().ok_or("integer expected")?).map_err(|_| "int range")?),
        S::Long => V::Long(d.as_i64().ok_or("integer expected")?),
        S::Float => V::Float((d.as_f64().ok_or("number expected")? as f32).to_bits()),
        S::Double => V::Double(d.as_f64().ok_or("number expected")?.to_bits()),
        S::Bytes => V::Bytes(bytes_of(d.as_str().ok_or("string expected")?)?),
        S::String => V::Str(d.as_str().ok_or("string expected")?.to_string()),
        S::Fixed { size, .. } => {
            let b = bytes_of(d.as_str().ok_or("string expected")?)?;
            if b.len() != *size {
                return Err("fixed default of the wrong size".into());
            }
            V::Fixed(b)
        }
        S::Enum { symbols, .. } => V::Enum(symbols.iter().position(|s| Some(s.as_str()) == d.as_str()).ok_or("enum default is not a symbol")?),
        S::Array(it) => V::Array(d.as_array().ok_or("array expected")?.iter().map(|x| default_value(x, it, env)).collect::<Result<_, _>>()?),
        S::Map(vt) => {
            let mut out = vec![];
            for (k, x) in d.as_object().ok_or("object expected")? {
                out.push((k.clone(), default_value(x, vt, env)?));
            }
            V::Map(out)
        }
        // The default of a union matches its first branch (specification up to 1.11) or, since 1.12,
        // any one branch: the first branch it conforms to, in order.
        S::Union(br) => {
            let mut first_err = None;
            let mut hit = None;
            for (i, b) in br.iter().enumerate() {
                match default_value(d, b, env) {
                    Ok(v) => {
                        hit = Some(V::Union(i, Box::new(v)));
                        break;
                    }
                    Err(e) => {
                        first_err.get_or_insert(e);
                    }
                }
            }
            match hit {
                Some(v) => v,
                None => return Err(first_err.unwrap_or_else(|| "empty union".to_string())),
            }
        }
        S::Record { fields, .. } => {
            let o = d.as_object().ok_or("object expected")?;
            let mut out = vec![];
            for f in fields {
                match o.get(&f.name).or(f.default.as_ref()) {
                    Some(x) => out.push(default_value(x, &f.ty, env)?),
                    None => return Err(format!("record default lacks field {}", f.name)),
                }
            }
            V::Record(out)
        }
        S::Logical(lt, b) => match lt {
            Lt::Decimal { .. } => {
                let raw = bytes_of(d.as_str().ok_or("string expected")?)?;
                V::Decimal(BigInt::from_signed_bytes_be(&raw))
            }
            Lt::Date | Lt::TimeMillis | Lt::TimeMicros | Lt::TsMillis | Lt::TsMicros | Lt::TsNanos | Lt::LtsMillis | Lt::LtsMicros | Lt::LtsNanos => default_value(d, b, env)?,
            Lt::Uuid => match b.deref(env) {
                S::String => V::Uuid(crate::refbin::parse_uuid_text(d.as_str().ok_or("string expected")?).ok_or("default is not a UUID text")?),
                _ => {
                    let raw = bytes_of(d.as_str().ok_or("string expected")?)?;
                    V::Uuid(<[u8; 16]>::try_from(raw.as_slice()).map_err(|_| "uuid default is not 16 bytes")?)
                }
            },
            Lt::Duration => {
                let raw = bytes_of(d.as_str().ok_or("string expected")?)?;
                if raw.len() != 12 {
                    return Err("duration default is not 12 bytes".into());
                }
                V::Duration(u32::from_le_bytes(raw[0..4].try_into().unwrap()), u32::from_le_bytes(raw[4..8].try_into().unwrap()), u32::from_le_bytes(raw[8..12].try_into().unwrap()))
            }
            Lt::BigDecimal => return Err("default for this logical type is outside the model".into()),
        },
        S::Ref(_) => unreachable!(),
    })
}

#[allow(dead_code)]
pub fn field_names(fields: &[F]) -> Vec<&str> {
    fields.iter().map(|f| f.name.as_str()).collect()
}
