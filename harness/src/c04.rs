//! C04: object container files conform to the specified layout in both directions, judged by the
//! independent container model `refocf`, the reference codecs and `refbin`.

use crate::ast::{refparse, Env, S};
use crate::c10::sem;
use crate::c15::{settings_default, Setting};
use crate::ev::{self, guarded, hex, Report, Stats, Tier};
use crate::oracle::{self, CodecOracle};
use crate::pcf::crc32;
use crate::refbin;
use crate::refocf::{self, MetaLayout};
use crate::su::{self, Sh};
use crate::val::{self, from_lib, to_lib, veq, V};
use apache_avro::{Reader, Schema, Writer};
use rayon::prelude::*;
use serde_json::{json, Value as J};
use std::collections::BTreeMap;
use std::time::Instant;

const MARKER: [u8; 16] = [0xC0, 0xFF, 0xEE, 0, 1, 2, 3, 4, 5, 6, 7, 8, 9, 10, 11, 12];

pub struct Kit {
    pub label: String,
    pub json: J,
    pub s: S,
    pub env: Env,
    pub values: Vec<V>,
}

pub fn kits() -> Vec<Kit> {
    use Sh::*;
    let shapes: Vec<(&str, Sh)> = vec![
        ("null", Prim("null")),
        ("int", Prim("int")),
        ("string", Prim("string")),
        ("record", Record(vec![Prim("long"), Prim("string"), Union(vec![Prim("null"), Prim("double")])])),
        ("array-of-null", Array(Box::new(Prim("null")))),
        ("map", Map(Box::new(Prim("bytes")))),
        ("enum", Enum(3, true)),
        ("fixed", Fixed(16)),
        ("decimal", DecBytes(20, 2)),
        ("union", Union(vec![Prim("int"), Prim("string"), Enum(2, false)])),
        ("record-of-null", Record(vec![Prim("null")])),
    ];
    shapes
        .into_iter()
        .map(|(l, sh)| {
            let json = su::shape_json(&sh);
            let (s, env) = refparse(&json).unwrap_or_else(|e| ev::machinery(&format!("refparse: {e:?}")));
            let mut values = val::values(&s, &env, 1, 0);
            values.retain(|v| !v.has_multi_map());
            values.truncate(5);
            Kit { label: l.to_string(), json, s, env, values }
        })
        .collect()
}

fn ref_decompress(s: &Setting, payload: &[u8], or: &mut CodecOracle) -> Result<Vec<u8>, String> {
    match s.codec_name {
        "null" => Ok(payload.to_vec()),
        "snappy" => {
            if payload.len() < 4 {
                return Err("snappy block shorter than its checksum".into());
            }
            let (body, crc) = payload.split_at(payload.len() - 4);
            let data = oracle::snappy_decode(body)?;
            if crc != crc32(&data).to_be_bytes() {
                return Err("snappy checksum is not the big-endian CRC-32 of the data".into());
            }
            Ok(data)
        }
        c => or.call('d', c, 0, payload),
    }
}

fn ref_compress(s: &Setting, data: &[u8], or: &mut CodecOracle) -> Result<Vec<u8>, String> {
    match s.codec_name {
        "null" => Ok(data.to_vec()),
        "snappy" => {
            let mut b = oracle::snappy_encode_literals(data);
            b.extend_from_slice(&crc32(data).to_be_bytes());
            Ok(b)
        }
        c => or.call('c', c, s.level.max(1), data),
    }
}

/// lib -> ref: write with the library (blocks decided by flush positions), parse independently.
fn lib_to_ref(kit: &Kit, schema: &Schema, s: &Setting, vals: &[&V], flush_after: &[bool], or: &mut CodecOracle) -> Result<(), String> {
    let mut w = Writer::builder().schema(schema).writer(Vec::new()).codec(s.codec).marker(MARKER).block_size(1 << 30).build().map_err(|e| e.to_string())?;
    w.add_user_metadata("user.key".into(), [0u8, 0xff, 0x80]).map_err(|e| e.to_string())?;
    // only the prefix "avro." is reserved
    w.add_user_metadata("avro_tools".into(), b"x").map_err(|e| format!("add_user_metadata(\"avro_tools\"): {e}"))?;
    let mut blocks: Vec<Vec<&V>> = vec![vec![]];
    for (i, v) in vals.iter().enumerate() {
        w.append_value_ref(&to_lib(v, &kit.s, &kit.env)).map_err(|e| format!("append: {e}"))?;
        blocks.last_mut().unwrap().push(v);
        if flush_after[i] {
            w.flush().map_err(|e| format!("flush: {e}"))?;
            blocks.push(vec![]);
        }
    }
    let bytes = w.into_inner().map_err(|e| format!("into_inner: {e}"))?;
    let blocks: Vec<Vec<&V>> = blocks.into_iter().filter(|b| !b.is_empty()).collect();
    let lay = refocf::parse(&bytes).map_err(|e| format!("layout: {e} | file {}", ev::trunc(&hex(&bytes), 300)))?;
    if lay.marker != MARKER {
        return Err("header marker is not the writer's marker".into());
    }
    let meta: BTreeMap<String, Vec<u8>> = lay.meta.iter().cloned().collect();
    if meta.len() != lay.meta.len() {
        return Err("duplicate metadata keys".into());
    }
    let schema_text = meta.get("avro.schema").ok_or("no avro.schema")?;
    let sj: J = serde_json::from_slice(schema_text).map_err(|e| format!("avro.schema is not JSON: {e}"))?;
    if sem(&sj, None) != sem(&kit.json, None) {
        return Err(format!("avro.schema denotes another schema: {}", String::from_utf8_lossy(schema_text)));
    }
    match (s.codec_name, meta.get("avro.codec")) {
        ("null", None) => {}
        ("null", Some(c)) if c == b"null" => {}
        (name, Some(c)) if c == name.as_bytes() => {}
        (name, other) => return Err(format!("avro.codec is {:?} for codec {name}", other.map(|c| String::from_utf8_lossy(c).into_owned()))),
    }
    if meta.get("user.key").map(|v| v.as_slice()) != Some(&[0u8, 0xff, 0x80][..]) || meta.get("avro_tools").map(|v| v.as_slice()) != Some(&b"x"[..]) {
        return Err("user metadata is not in the header".into());
    }
    if lay.blocks.len() != blocks.len() {
        return Err(format!("{} blocks in the file, {} expected", lay.blocks.len(), blocks.len()));
    }
    for (b, expect) in lay.blocks.iter().zip(&blocks) {
        if b.count as usize != expect.len() {
            return Err(format!("block object count {} but {} values", b.count, expect.len()));
        }
        let data = match ref_decompress(s, &bytes[b.payload.0..b.payload.1], or) {
            Ok(d) => d,
            // no zstd CLI in this environment: only the frame magic can be checked, the items of this block
            // are judged by the ref->lib direction's siblings and by C15's round trip
            Err(e) if e.contains("NOZSTD") => {
                if !bytes[b.payload.0..b.payload.1].starts_with(&[0x28, 0xb5, 0x2f, 0xfd]) {
                    return Err("zstandard block does not start with the frame magic".into());
                }
                continue;
            }
            Err(e) => return Err(format!("reference decompressor: {e}")),
        };
        let mut cur = refbin::Cur::new(&data);
        for v in expect {
            let got = refbin::decode(&mut cur, &kit.s, &kit.env).map_err(|e| format!("reference datum decoder: {e:?}"))?;
            if !veq(&got, v) {
                return Err(format!("block holds {got:?}, appended {v:?}"));
            }
        }
        if cur.pos != data.len() {
            return Err("block payload has trailing bytes".into());
        }
    }
    Ok(())
}

/// ref -> lib: build a conforming file independently, read it with the library.
#[allow(clippy::too_many_arguments)]
fn ref_to_lib(kit: &Kit, s: &Setting, vals: &[&V], partition: &[usize], meta_layout: MetaLayout, extra_meta: bool, codec_key_for_null: bool, or: &mut CodecOracle) -> Result<(), String> {
    let mut meta: Vec<(String, Vec<u8>)> = vec![("avro.schema".into(), kit.json.to_string().into_bytes())];
    if s.codec_name != "null" || codec_key_for_null {
        meta.push(("avro.codec".into(), s.codec_name.as_bytes().to_vec()));
    }
    let mut user: BTreeMap<String, Vec<u8>> = BTreeMap::new();
    if extra_meta {
        meta.insert(0, ("avro.unknown.future".into(), vec![1, 2, 3]));
        meta.push(("my.key".into(), vec![0, 0xff, 0xfe, 0x80]));
        meta.push(("".into(), b"empty key".to_vec()));
        user.insert("my.key".into(), vec![0, 0xff, 0xfe, 0x80]);
        user.insert("".into(), b"empty key".to_vec());
        // only the prefix "avro." is reserved: these are ordinary user keys
        for k in ["avro_tools", "avrodoc", "avro"] {
            meta.push((k.into(), k.as_bytes().to_vec()));
            user.insert(k.into(), k.as_bytes().to_vec());
        }
    }
    let mut file = refocf::write_header(&meta, meta_layout, &MARKER);
    let mut i = 0;
    for &n in partition {
        let mut payload = vec![];
        for v in &vals[i..i + n] {
            payload.extend(refbin::encode(v, &kit.s, &kit.env));
        }
        i += n;
        let comp = match ref_compress(s, &payload, or) {
            Ok(c) => c,
            Err(e) if e.contains("NOZSTD") => return Ok(()),
            Err(e) => ev::machinery(&format!("reference compressor failed: {e}")),
        };
        refocf::write_block(n, &comp, &MARKER, &mut file);
    }
    let r = guarded(|| -> Result<(), String> {
        let reader = Reader::new(&file[..]).map_err(|e| format!("Reader::new: {e}"))?;
        let ws = serde_json::to_value(reader.writer_schema()).map_err(|e| e.to_string())?;
        if sem(&ws, None) != sem(&kit.json, None) {
            return Err(format!("writer_schema differs: {ws}"));
        }
        let um: BTreeMap<String, Vec<u8>> = reader.user_metadata().iter().map(|(k, v)| (k.clone(), v.clone())).collect();
        if um != user {
            return Err(format!("user metadata differs: {um:?} vs {user:?}"));
        }
        let mut got = vec![];
        for item in reader {
            got.push(item.map_err(|e| format!("read error after {} values: {e}", got.len()))?);
        }
        if got.len() != vals.len() {
            return Err(format!("{} values read, {} written", got.len(), vals.len()));
        }
        for (g, v) in got.iter().zip(vals) {
            match from_lib(g, &kit.s, &kit.env) {
                Ok(x) if veq(&x, v) => {}
                other => return Err(format!("value {g:?} read where {v:?} was written ({other:?})")),
            }
        }
        // the same file from a source that delivers 1 or 7 bytes per read (a pipe, a socket)
        for chunk in [1usize, 7] {
            let src = crate::c01::ChunkReader { data: &file, pos: 0, chunk };
            let reader = Reader::new(src).map_err(|e| format!("Reader::new on a source delivering {chunk} bytes per read: {e}"))?;
            let mut n = 0usize;
            for (i, item) in reader.enumerate() {
                let g = item.map_err(|e| format!("read error after {i} values on a source delivering {chunk} bytes per read: {e}"))?;
                match (vals.get(i), from_lib(&g, &kit.s, &kit.env)) {
                    (Some(v), Ok(x)) if veq(&x, v) => {}
                    other => return Err(format!("source delivering {chunk} bytes per read: value {i} is {g:?} ({other:?})")),
                }
                n += 1;
            }
            if n != vals.len() {
                return Err(format!("source delivering {chunk} bytes per read: {n} values read, {} written", vals.len()));
            }
        }
        Ok(())
    });
    match r {
        Ok(x) => x.map_err(|e| format!("{e} | file {}", ev::trunc(&hex(&file), 400))),
        Err(p) => Err(format!("panic: {p}")),
    }
}

pub fn run(tier: Tier, replay: Option<&J>) -> i32 {
    let start = Instant::now();
    refbin::self_test();
    oracle::self_test();
    let kits = kits();
    let settings: Vec<Setting> = settings_default().into_iter().filter(|s| !(s.codec_name == "deflate" && s.level == 0) && s.level < 19 && !(s.codec_name == "xz" && s.level >= 6) && !(s.codec_name == "bzip2" && s.level >= 9)).collect();
    let nmax = match tier {
        Tier::Quick => 3,
        Tier::Thorough => 4,
    };
    let only_kit = replay.and_then(|r| r["kit"].as_str()).map(|s| s.to_string());
    let only_codec = replay.and_then(|r| r["codec"].as_str()).map(|s| s.to_string());
    let work: Vec<(&Kit, &Setting)> = kits.iter().flat_map(|k| settings.iter().map(move |s| (k, s))).filter(|(k, s)| only_kit.as_ref().is_none_or(|o| *o == k.label) && only_codec.as_ref().is_none_or(|o| o == s.codec_name)).collect();
    let st = work
        .par_iter()
        .enumerate()
        .map(|(wi, (kit, s))| {
            let mut st = Stats::default();
            let mut or = CodecOracle::start();
            let schema = match Schema::parse_str(&kit.json.to_string()) {
                Ok(x) => x,
                Err(_) => {
                    st.outcome("schema-not-accepted(C11)");
                    return st;
                }
            };
            let mut ord = (wi as u64) << 32;
            // value sequences of length 0..=nmax (rotating through the kit's values)
            for n in 0..=nmax {
                let vals: Vec<&V> = (0..n).map(|i| &kit.values[(i * 2 + n) % kit.values.len()]).collect();
                // lib -> ref: every placement of flushes = every block partition
                for mask in 0..(1u32 << n.saturating_sub(1).min(31)) {
                    let flush_after: Vec<bool> = (0..n).map(|i| i + 1 == n || mask & (1 << i) != 0).collect();
                    ord += 1;
                    st.states += 1;
                    st.evaluations += 1;
                    st.transitions += (n + 2) as u64;
                    let r = guarded(|| lib_to_ref(kit, &schema, s, &vals, &flush_after, &mut or));
                    let r = match r {
                        Ok(x) => x,
                        Err(p) => Err(format!("panic: {p}")),
                    };
                    match r {
                        Ok(()) => {
                            st.outcome("lib-file-read-by-reference");
                            st.class(format!("L2R|{}|{}|{}|{mask}", kit.label, s.codec_name, n));
                        }
                        Err(e) => {
                            st.outcome("violation:lib-file-not-conforming");
                            st.violate(ord, "a file written by the library is not read to the same values by the independent container reader", json!({"schema": kit.json, "codec": s.codec_name, "values": vals.iter().map(|v| v.short()).collect::<Vec<_>>(), "flush_after": flush_after, "observed": e}), json!({"kit": kit.label, "codec": s.codec_name}));
                        }
                    }
                }
                // ref -> lib: every block partition x metadata layouts
                for part in refocf::partitions(n) {
                    for (mi, ml) in [MetaLayout::OneBlock, MetaLayout::OnePerBlock, MetaLayout::NegativeCounts].iter().enumerate() {
                        for extra in [false, true] {
                            if tier == Tier::Quick && mi > 0 && !extra && n > 1 {
                                continue;
                            }
                            ord += 1;
                            st.states += 1;
                            st.evaluations += 1;
                            st.transitions += (n + 2) as u64;
                            let codec_key_for_null = extra;
                            match ref_to_lib(kit, s, &vals, &part, *ml, extra, codec_key_for_null, &mut or) {
                                Ok(()) => {
                                    st.outcome("reference-file-read-by-lib");
                                    st.class(format!("R2L|{}|{}|{:?}|{:?}|{extra}", kit.label, s.codec_name, part, ml));
                                    if n == 2 && extra {
                                        st.sample(|| json!({"direction": "reference -> library", "schema": kit.json, "codec": s.codec_name, "block_partition": part, "metadata_layout": format!("{ml:?}")}));
                                    }
                                }
                                Err(e) => {
                                    st.outcome("violation:reference-file-not-read");
                                    st.violate(ord, "a spec-conforming file from the independent writer is not read to the same values / schema / metadata", json!({"schema": kit.json, "codec": s.codec_name, "values": vals.iter().map(|v| v.short()).collect::<Vec<_>>(), "block_partition": part, "metadata_layout": format!("{ml:?}"), "extra_metadata": extra, "observed": e}), json!({"kit": kit.label, "codec": s.codec_name}));
                                }
                            }
                        }
                    }
                }
            }
            st
        })
        .reduce(Stats::default, Stats::merge);
    let rep = Report {
        id: "C04".into(),
        tier,
        level: "model_checking",
        rule: format!("for every (schema kit, codec): value sequences of length 0..={nmax}; library -> reference: every placement of flushes (= every block partition) written by the real Writer and parsed by refocf (magic, metadata map, avro.schema by semantic normal form, avro.codec, marker, blocks of count/size/payload/marker), payloads decompressed by python zlib(-15)/bz2/lzma, the zstd CLI or the harness's snappy decoder + CRC-32, items decoded by refbin; reference -> library: every block partition x metadata layouts (one block, one entry per block, negative counts with byte sizes) x additional metadata (unknown avro.* key, binary user values, empty key, avro.codec=null) written by refocf with reference compressors and read by the real Reader. A class is a distinct (direction, schema, codec, partition, metadata layout)"),
        bounds: json!({"kits": kits.len(), "codecs": settings.iter().map(|s| format!("{}:{}", s.codec_name, s.level)).collect::<Vec<_>>(), "max_values": nmax}),
        assumptions: vec!["refocf/refbin/refsnappy are independent implementations; zstandard is checked against the zstd CLI (same upstream code base, separate build)".into()],
        exhaustive: replay.is_none(),
        extra: json!({}),
    };
    ev::finish(rep, st, start)
}
