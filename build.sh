#!/bin/bash
# Build the harness (path-depends on /repo/avro with all codec features). Serialised with flock so
# concurrent checks do not fight over the target directory.
set -e
cd "$(dirname "$0")/harness"
export CARGO_NET_OFFLINE=true
exec flock target.lock cargo build --release --offline
