#!/bin/bash
# Instrument a copy of /repo/avro (current working tree) and build the C19 harness against it.
set -e
cd "$(dirname "$0")/harness_c19"
export CARGO_NET_OFFLINE=true
exec 9>target.lock; flock 9
python3 ../tools/instrument_c19.py avro_instr shim/verif_once.rs || { rc=$?; [ $rc -eq 3 ] || exit $rc; echo "no OnceLock left to instrument" >&2; }
cargo build --release --offline
