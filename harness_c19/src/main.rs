//! C19 (engine E4): process-wide settings under every interleaving (shuttle DFS over the
//! scheduling shim that build-time instrumentation puts under the settings), plus uniform
//! enforcement of the allocation limit across decoders (one child process per limit value).

#[path = "../../harness/src/ev.rs"]
mod ev;

use apache_avro::schema_equality::{set_schemata_equality_comparator, SchemataEq};
use apache_avro::types::Value;
use apache_avro::validator::{
    set_enum_symbol_name_validator, set_record_field_name_validator, set_schema_name_validator, set_schema_namespace_validator, EnumSymbolNameValidator, RecordFieldNameValidator, SchemaNameValidator,
    SchemaNamespaceValidator,
};
use apache_avro::verif_once;
use apache_avro::{AvroResult, Schema};
use ev::{Report, Stats, Tier};
use serde_json::{json, Value as J};
use std::sync::atomic::{AtomicU64, Ordering};
use std::sync::{Arc, Mutex};
use std::time::Instant;

// ---------------------------------------------------------------------------------------------
// settings as (set A / set B / use) triples. An operation's observation is the SET of values that
// may be in force given what the operation saw (bit mask over A, B, DEFAULT); every operation is
// exactly one scheduled step on the setting's cell.

pub const A: u8 = 1;
pub const B: u8 = 2;
pub const D: u8 = 4;

fn mask_name(m: u8) -> String {
    let mut v = vec![];
    if m & A != 0 {
        v.push("A");
    }
    if m & B != 0 {
        v.push("B");
    }
    if m & D != 0 {
        v.push("default");
    }
    format!("{{{}}}", v.join("|"))
}

#[derive(Clone, Copy, Debug, PartialEq)]
pub enum Op {
    SetA,
    SetB,
    Use,
}

pub trait Setting: Send + Sync {
    fn name(&self) -> &'static str;
    /// part of the cell's type name: only this cell is a scheduling point in the scenario
    fn focus(&self) -> &'static str;
    /// perform the op (one step on the cell); the set of values that can be in force afterwards
    fn run(&self, op: Op) -> u8;
    /// exact value in force (may take several steps; only called when no other thread runs)
    fn settle(&self) -> u8;
    /// the value a thread's first operation would install
    fn installs(&self, op: Op) -> u8 {
        match op {
            Op::SetA => A,
            Op::SetB => B,
            Op::Use => D,
        }
    }
}

// --- allocation limit -------------------------------------------------------------------------

struct AllocLimit;
const LIM_A: usize = 100;
const LIM_B: usize = 200;

fn accepts_bytes_len(n: usize) -> bool {
    let schema = Schema::Bytes;
    let mut input = varint(n as u64);
    input.extend(std::iter::repeat_n(7u8, n));
    apache_avro::reader::datum::GenericDatumReader::builder(&schema).build().and_then(|r| r.read_value(&mut &input[..])).is_ok()
}

impl Setting for AllocLimit {
    fn name(&self) -> &'static str {
        "max_allocation_bytes"
    }
    fn focus(&self) -> &'static str {
        "usize"
    }
    fn run(&self, op: Op) -> u8 {
        let of = |n: usize| match n {
            LIM_A => A,
            LIM_B => B,
            apache_avro::util::DEFAULT_MAX_ALLOCATION_BYTES => D,
            _ => 0,
        };
        match op {
            Op::SetA => of(apache_avro::util::max_allocation_bytes(LIM_A)),
            Op::SetB => of(apache_avro::util::max_allocation_bytes(LIM_B)),
            // one decode of a 150-byte `bytes`: rejected iff the limit is A
            Op::Use => {
                if accepts_bytes_len(150) {
                    B | D
                } else {
                    A
                }
            }
        }
    }
    fn settle(&self) -> u8 {
        match (accepts_bytes_len(150), accepts_bytes_len(250)) {
            (false, false) => A,
            (true, false) => B,
            (true, true) => D,
            _ => 0,
        }
    }
}

/// The same setting when its first use is the schema-aware deserializer's block-count check (a typed
/// decode of an array) instead of a length check of the generic decoder.
struct AllocLimitTypedUse;

fn accepts_typed_array_len(n: u64) -> bool {
    let schema = Schema::parse_str(r#"{"type":"array","items":"null"}"#).unwrap();
    let r = apache_avro::reader::datum::GenericDatumReader::builder(&schema).build().unwrap();
    let mut input = varint(n);
    input.push(0);
    r.read_deser::<Vec<()>>(&mut &input[..]).is_ok()
}

impl Setting for AllocLimitTypedUse {
    fn name(&self) -> &'static str {
        "max_allocation_bytes (first use: typed array decode)"
    }
    fn focus(&self) -> &'static str {
        "usize"
    }
    fn run(&self, op: Op) -> u8 {
        match op {
            Op::Use => {
                if accepts_typed_array_len(150) {
                    B | D
                } else {
                    A
                }
            }
            other => AllocLimit.run(other),
        }
    }
    fn settle(&self) -> u8 {
        AllocLimit.settle()
    }
}

// --- human readable flag ----------------------------------------------------------------------

struct HumanReadable;
struct HrProbe;
impl serde::Serialize for HrProbe {
    fn serialize<S: serde::Serializer>(&self, s: S) -> Result<S::Ok, S::Error> {
        let hr = s.is_human_readable();
        s.serialize_bool(hr)
    }
}

impl Setting for HumanReadable {
    fn name(&self) -> &'static str {
        "set_serde_human_readable"
    }
    fn focus(&self) -> &'static str {
        "bool"
    }
    // A = true; B = false, which is also the default: B and D are the same value here
    fn run(&self, op: Op) -> u8 {
        let of = |b: bool| if b { A } else { B | D };
        match op {
            Op::SetA => of(apache_avro::util::set_serde_human_readable(true)),
            Op::SetB => of(apache_avro::util::set_serde_human_readable(false)),
            Op::Use => self.settle(),
        }
    }
    fn settle(&self) -> u8 {
        match apache_avro::to_value(HrProbe) {
            Ok(Value::Boolean(true)) => A,
            Ok(Value::Boolean(false)) => B | D,
            _ => 0,
        }
    }
    fn installs(&self, op: Op) -> u8 {
        match op {
            Op::SetA => A,
            _ => B | D,
        }
    }
}

// --- validators -------------------------------------------------------------------------------

/// Custom validators accept exactly one spelling each, so the validator in force is observable.
struct NameV(&'static str);
impl SchemaNameValidator for NameV {
    fn validate(&self, name: &str) -> AvroResult<usize> {
        if name == self.0 { Ok(0) } else { Err(apache_avro::error::Details::InvalidSchemaName(name.to_string(), "custom").into()) }
    }
}
struct NsV(&'static str);
impl SchemaNamespaceValidator for NsV {
    fn validate(&self, ns: &str) -> AvroResult<()> {
        if ns == self.0 { Ok(()) } else { Err(apache_avro::error::Details::InvalidNamespace(ns.to_string(), "custom").into()) }
    }
}
struct SymV(&'static str);
impl EnumSymbolNameValidator for SymV {
    fn validate(&self, s: &str) -> AvroResult<()> {
        if s == self.0 { Ok(()) } else { Err(apache_avro::error::Details::EnumSymbolName(s.to_string()).into()) }
    }
}
struct FieldV(&'static str);
impl RecordFieldNameValidator for FieldV {
    fn validate(&self, s: &str) -> AvroResult<()> {
        if s == self.0 { Ok(()) } else { Err(apache_avro::error::Details::FieldName(s.to_string()).into()) }
    }
}

/// One validator setting: three texts (only A accepts / only B accepts / only the default accepts).
struct ValidatorSetting {
    name: &'static str,
    focus: &'static str,
    texts: [&'static str; 3],
    set: fn(u8) -> bool,
}

impl Setting for ValidatorSetting {
    fn name(&self) -> &'static str {
        self.name
    }
    fn focus(&self) -> &'static str {
        self.focus
    }
    fn run(&self, op: Op) -> u8 {
        match op {
            Op::SetA => {
                if (self.set)(A) {
                    A
                } else {
                    B | D
                }
            }
            Op::SetB => {
                if (self.set)(B) {
                    B
                } else {
                    A | D
                }
            }
            // one parse of the text only the default validator accepts
            Op::Use => {
                if Schema::parse_str(self.texts[2]).is_ok() {
                    D
                } else {
                    A | B
                }
            }
        }
    }
    fn settle(&self) -> u8 {
        let ok: Vec<bool> = self.texts.iter().map(|t| Schema::parse_str(t).is_ok()).collect();
        match (ok[0], ok[1], ok[2]) {
            (true, false, false) => A,
            (false, true, false) => B,
            (false, false, true) => D,
            _ => 0,
        }
    }
}

// --- comparator -------------------------------------------------------------------------------

#[derive(Debug)]
struct Cmp(bool);
impl SchemataEq for Cmp {
    fn compare(&self, _: &Schema, _: &Schema) -> bool {
        self.0
    }
}

struct Comparator;
impl Setting for Comparator {
    fn name(&self) -> &'static str {
        "set_schemata_equality_comparator"
    }
    fn focus(&self) -> &'static str {
        "SchemataEq"
    }
    // A: everything equal; B: nothing equal; default: structural
    fn run(&self, op: Op) -> u8 {
        match op {
            Op::SetA => {
                if set_schemata_equality_comparator(Box::new(Cmp(true))).is_ok() {
                    A
                } else {
                    B | D
                }
            }
            Op::SetB => {
                if set_schemata_equality_comparator(Box::new(Cmp(false))).is_ok() {
                    B
                } else {
                    A | D
                }
            }
            Op::Use => {
                if Schema::Int == Schema::Long {
                    A
                } else {
                    B | D
                }
            }
        }
    }
    fn settle(&self) -> u8 {
        match (Schema::Int == Schema::Int, Schema::Int == Schema::Long) {
            (true, true) => A,
            (false, false) => B,
            (true, false) => D,
            _ => 0,
        }
    }
}

fn settings() -> Vec<Arc<dyn Setting>> {
    vec![
        Arc::new(AllocLimit),
        Arc::new(AllocLimitTypedUse),
        Arc::new(HumanReadable),
        Arc::new(ValidatorSetting {
            name: "set_schema_name_validator",
            focus: "SchemaNameValidator",
            texts: [r#"{"type":"fixed","name":"1-a","size":1}"#, r#"{"type":"fixed","name":"2-b","size":1}"#, r#"{"type":"fixed","name":"Good","size":1}"#],
            set: |w| set_schema_name_validator(Box::new(NameV(if w == A { "1-a" } else { "2-b" }))).is_ok(),
        }),
        Arc::new(ValidatorSetting {
            name: "set_schema_namespace_validator",
            focus: "SchemaNamespaceValidator",
            texts: [r#"{"type":"fixed","name":"F","namespace":"1-a","size":1}"#, r#"{"type":"fixed","name":"F","namespace":"2-b","size":1}"#, r#"{"type":"fixed","name":"F","namespace":"good.ns","size":1}"#],
            set: |w| set_schema_namespace_validator(Box::new(NsV(if w == A { "1-a" } else { "2-b" }))).is_ok(),
        }),
        Arc::new(ValidatorSetting {
            name: "set_enum_symbol_name_validator",
            focus: "EnumSymbolNameValidator",
            texts: [r#"{"type":"enum","name":"E","symbols":["1-a"]}"#, r#"{"type":"enum","name":"E","symbols":["2-b"]}"#, r#"{"type":"enum","name":"E","symbols":["GOOD"]}"#],
            set: |w| set_enum_symbol_name_validator(Box::new(SymV(if w == A { "1-a" } else { "2-b" }))).is_ok(),
        }),
        Arc::new(ValidatorSetting {
            name: "set_record_field_name_validator",
            focus: "RecordFieldNameValidator",
            texts: [r#"{"type":"record","name":"R","fields":[{"name":"1-a","type":"int"}]}"#, r#"{"type":"record","name":"R","fields":[{"name":"2-b","type":"int"}]}"#, r#"{"type":"record","name":"R","fields":[{"name":"good","type":"int"}]}"#],
            set: |w| set_record_field_name_validator(Box::new(FieldV(if w == A { "1-a" } else { "2-b" }))).is_ok(),
        }),
        Arc::new(Comparator),
    ]
}

// ---------------------------------------------------------------------------------------------
// scenarios: thread programs

fn scenarios(tier: Tier) -> Vec<Vec<Vec<Op>>> {
    use Op::*;
    let mut v = vec![
        vec![vec![SetA], vec![SetB]],
        vec![vec![SetA], vec![Use]],
        vec![vec![Use], vec![Use]],
        vec![vec![SetA, Use], vec![SetB, Use]],
        vec![vec![Use, SetA], vec![SetB]],
        vec![vec![SetA], vec![SetB], vec![Use]],
        vec![vec![Use, SetA, Use], vec![SetB]],
    ];
    v.push(vec![vec![SetA, Use], vec![SetB, Use], vec![Use]]);
    v.push(vec![vec![Use, SetA], vec![Use, SetB], vec![SetB, Use]]);
    v.push(vec![vec![SetA, SetB, Use], vec![SetB, SetA, Use]]);
    if tier == Tier::Thorough {
        // ALL thread programs within the bound: two threads of 1..=3 operations each (unordered pairs of
        // sequences), and three threads of 1..=2 operations with at most 5 operations in total
        let ops = [SetA, SetB, Use];
        let mut seqs: Vec<Vec<Op>> = vec![];
        for a in ops {
            seqs.push(vec![a]);
            for b in ops {
                seqs.push(vec![a, b]);
                for c in ops {
                    seqs.push(vec![a, b, c]);
                }
            }
        }
        let named = v.clone();
        for (i, x) in seqs.iter().enumerate() {
            for y in &seqs[i..] {
                let p = vec![x.clone(), y.clone()];
                if !named.contains(&p) {
                    v.push(p);
                }
            }
        }
        let short: Vec<&Vec<Op>> = seqs.iter().filter(|s| s.len() <= 2).collect();
        for (i, x) in short.iter().enumerate() {
            for (j, y) in short.iter().enumerate().skip(i) {
                for z in short.iter().skip(j) {
                    if x.len() + y.len() + z.len() <= 5 {
                        let p = vec![(*x).clone(), (*y).clone(), (*z).clone()];
                        if !named.contains(&p) {
                            v.push(p);
                        }
                    }
                }
            }
        }
    }
    v
}

/// The hand-picked programs come first; only they are also run as fresh-process interleavings.
const NAMED_PROGRAMS: usize = 10;

/// A setter that reports "already set" tells which values it did NOT install; when the program sets the
/// same value in two places, the value in force may be that very value, installed by the other one.
fn widen(v: u8, op: Op, prog: &[Vec<Op>]) -> u8 {
    let bit = match op {
        Op::SetA => A,
        Op::SetB => B,
        Op::Use => return v,
    };
    let same = prog.iter().flatten().filter(|o| **o == op).count();
    if v & bit == 0 && same >= 2 {
        v | bit
    } else {
        v
    }
}

fn run_scenario(setting: Arc<dyn Setting>, program: Vec<Vec<Op>>, st: &mut Stats, order: u64) {
    let executions = Arc::new(AtomicU64::new(0));
    let steps0 = verif_once::steps();
    verif_once::set_focus(setting.focus());
    // distinct observation logs and the first violating one
    let logs: Arc<Mutex<std::collections::BTreeSet<String>>> = Arc::new(Mutex::new(Default::default()));
    let bad: Arc<Mutex<Option<J>>> = Arc::new(Mutex::new(None));
    let name = setting.name();
    let prog = program.clone();
    let (ex2, logs2, bad2) = (executions.clone(), logs.clone(), bad.clone());
    let result = std::panic::catch_unwind(std::panic::AssertUnwindSafe(|| {
        shuttle::check_dfs(
            move || {
                verif_once::new_epoch();
                ex2.fetch_add(1, Ordering::SeqCst);
                let log: Arc<Mutex<Vec<(usize, Op, u8)>>> = Arc::new(Mutex::new(vec![]));
                let mut hs = vec![];
                for (ti, ops) in prog.iter().enumerate() {
                    let (s, ops, log, whole) = (setting.clone(), ops.clone(), log.clone(), prog.clone());
                    hs.push(shuttle::thread::spawn(move || {
                        for op in ops {
                            let v = widen(s.run(op), op, &whole);
                            log.lock().unwrap().push((ti, op, v));
                        }
                    }));
                }
                for h in hs {
                    h.join().unwrap();
                }
                // no other thread runs any more: the exact value in force
                let fin = setting.settle();
                let log = log.lock().unwrap().clone();
                let firsts: u8 = prog.iter().fold(0, |m, ops| m | setting.installs(ops[0]));
                // every operation's observation admits the final value; the final value is one that
                // some thread's first operation installs; it is a single value
                let ok = fin != 0 && log.iter().all(|x| x.2 & fin == fin) && fin & firsts == fin;
                let text = format!("{} final={}", log.iter().map(|(t, o, v)| format!("t{t}:{o:?}->{}", mask_name(*v))).collect::<Vec<_>>().join(" "), mask_name(fin));
                logs2.lock().unwrap().insert(text.clone());
                if !ok {
                    let mut b = bad2.lock().unwrap();
                    if b.is_none() {
                        *b = Some(json!({"setting": setting.name(), "threads": format!("{prog:?}"), "operations_in_completion_order": text, "values_installable_by_first_operations": mask_name(firsts)}));
                    }
                }
            },
            None,
        );
    }));
    let n = executions.load(Ordering::SeqCst);
    st.states += n;
    st.evaluations += n;
    st.transitions += verif_once::steps() - steps0;
    let distinct = logs.lock().unwrap().len();
    if verif_once::steps() == steps0 {
        // the setting's cell is not a std OnceLock any more: the shim does not interpose, the cell is
        // not reset between executions, so these executions say nothing. Part (2b) below (every
        // operation-level interleaving in fresh processes, uninstrumented) judges this setting.
        st.outcome("cell-not-instrumented(judged-by-fresh-process-interleavings)");
        return;
    }
    if let Err(p) = result {
        let msg = p.downcast_ref::<String>().cloned().or_else(|| p.downcast_ref::<&str>().map(|s| s.to_string())).unwrap_or_default();
        st.outcome("violation:panic-or-deadlock");
        st.violate(order, "a schedule panicked or deadlocked", json!({"setting": name, "threads": format!("{program:?}"), "panic": ev::trunc(&msg, 600)}), json!({"setting": name, "threads": format!("{program:?}")}));
        return;
    }
    match bad.lock().unwrap().clone() {
        Some(case) => {
            st.outcome("violation:not-first-set-wins");
            st.violate(order, "some schedule lets callers see different values, a value nobody set first, or a changed value", case, json!({"setting": name, "threads": format!("{program:?}")}));
        }
        None => {
            st.outcome("all-schedules-first-set-wins");
            // non-trivial: at least two different observation logs, i.e. the schedule mattered
            if distinct >= 2 {
                st.class(format!("{name}|{program:?}|{distinct}"));
            }
            st.sample(|| json!({"setting": name, "threads": format!("{program:?}"), "schedules": n, "distinct_observation_logs": distinct, "one_log": logs.lock().unwrap().iter().next().cloned()}));
        }
    }
}

// ---------------------------------------------------------------------------------------------
// uniform enforcement of the allocation limit (child process per limit)

fn varint(n: u64) -> Vec<u8> {
    let mut z = n << 1; // zig-zag of a non-negative number
    let mut out = vec![];
    loop {
        let b = (z & 0x7f) as u8;
        z >>= 7;
        if z == 0 {
            out.push(b);
            return out;
        }
        out.push(b | 0x80);
    }
}

#[derive(PartialEq, Debug)]
enum Dec {
    Accepted,
    RejectedByLimit,
    OtherError(String),
}

fn classify<T>(r: AvroResult<T>) -> Dec {
    match r {
        Ok(_) => Dec::Accepted,
        Err(e) => match e.details() {
            apache_avro::error::Details::MemoryAllocation { .. } => Dec::RejectedByLimit,
            other => {
                let s = format!("{other:?}");
                if s.contains("MemoryAllocation") { Dec::RejectedByLimit } else { Dec::OtherError(ev::trunc(&s, 200)) }
            }
        },
    }
}

/// One decoder path: given a declared length D (and whether to supply D bytes of data), decode.
fn paths() -> Vec<(&'static str, Box<dyn Fn(u64, bool) -> Dec>)> {
    use apache_avro::reader::datum::GenericDatumReader;
    let datum = |schema: Schema, deser: bool| {
        move |d: u64, data: bool| {
            let mut input = varint(d);
            if data {
                input.extend(std::iter::repeat_n(b'a', d as usize));
            }
            let r = GenericDatumReader::builder(&schema).build().unwrap();
            if deser { classify(r.read_deser::<serde::de::IgnoredAny>(&mut &input[..])) } else { classify(r.read_value(&mut &input[..])) }
        }
    };
    vec![
        ("generic decoder: bytes length", Box::new(datum(Schema::Bytes, false))),
        ("generic decoder: string length", Box::new(datum(Schema::String, false))),
        ("schema-aware deserializer: bytes length", Box::new(datum(Schema::Bytes, true))),
        ("schema-aware deserializer: string length", Box::new(datum(Schema::String, true))),
        (
            "generic decoder: fixed size from the schema",
            Box::new(|d: u64, data: bool| {
                let schema = match Schema::parse_str(&format!(r#"{{"type":"fixed","name":"F","size":{d}}}"#)) {
                    Ok(s) => s,
                    Err(e) => return Dec::OtherError(e.to_string()),
                };
                let input: Vec<u8> = if data { vec![1; d as usize] } else { vec![] };
                let r = GenericDatumReader::builder(&schema).build().unwrap();
                classify(r.read_value(&mut &input[..]))
            }),
        ),
        (
            "container reader: block byte size",
            Box::new(|d: u64, data: bool| {
                // header for schema "bytes", one block of one item whose payload is d bytes
                let schema = Schema::Bytes;
                let marker = [9u8; 16];
                let w = apache_avro::Writer::builder().schema(&schema).writer(Vec::new()).marker(marker).build().unwrap();
                let mut file = w.into_inner().unwrap();
                file.extend(varint(1));
                file.extend(varint(d));
                if data {
                    // payload: a bytes datum filling d bytes exactly is not needed for the limit check; supply d bytes
                    let mut payload = vec![0u8; d as usize];
                    if d >= 1 {
                        payload[0] = 0; // bytes of length 0, the rest is ignored by the item decoder
                    }
                    file.extend(payload);
                    file.extend(marker);
                }
                match apache_avro::Reader::new(&file[..]) {
                    Err(e) => classify::<()>(Err(e)),
                    Ok(mut r) => match r.next() {
                        Some(Err(e)) => classify::<()>(Err(e)),
                        _ => Dec::Accepted,
                    },
                }
            }),
        ),
        (
            "snappy block: declared uncompressed length",
            Box::new(|d: u64, data: bool| {
                let mut block: Vec<u8> = vec![];
                if data {
                    let mut v = vec![7u8; d as usize];
                    apache_avro::Codec::Snappy.compress(&mut v).unwrap();
                    block = v;
                } else {
                    // raw varint (not zig-zag) of the declared length, no body, 4 checksum bytes
                    let mut n = d;
                    loop {
                        let b = (n & 0x7f) as u8;
                        n >>= 7;
                        if n == 0 {
                            block.push(b);
                            break;
                        }
                        block.push(b | 0x80);
                    }
                    block.extend([0, 0, 0, 0]);
                }
                classify(apache_avro::Codec::Snappy.decompress(&mut block))
            }),
        ),
        (
            "deflate block: decompressed size",
            Box::new(|d: u64, _data: bool| {
                if d > 1 << 24 {
                    return Dec::RejectedByLimit; // not constructible cheaply; covered by the smaller limits
                }
                let mut v = vec![0u8; d as usize];
                let c = apache_avro::Codec::Deflate(Default::default());
                c.compress(&mut v).unwrap();
                classify(c.decompress(&mut v))
            }),
        ),
    ]
}

/// All interleavings (as sequences of thread indices) of threads with the given operation counts.
fn merges(lens: &[usize]) -> Vec<Vec<usize>> {
    fn rec(left: &mut Vec<usize>, cur: &mut Vec<usize>, out: &mut Vec<Vec<usize>>) {
        if left.iter().all(|&n| n == 0) {
            out.push(cur.clone());
            return;
        }
        for t in 0..left.len() {
            if left[t] > 0 {
                left[t] -= 1;
                cur.push(t);
                rec(left, cur, out);
                cur.pop();
                left[t] += 1;
            }
        }
    }
    let mut out = vec![];
    rec(&mut lens.to_vec(), &mut vec![], &mut out);
    out
}

fn limit_child(limit: usize) -> i32 {
    let got = apache_avro::util::max_allocation_bytes(limit);
    let mut problems: Vec<J> = vec![];
    let mut checks = 0u64;
    if got != limit {
        problems.push(json!({"what": "max_allocation_bytes did not report the value set first", "set": limit, "reported": got}));
    }
    if apache_avro::util::max_allocation_bytes(limit.wrapping_add(7)) != limit {
        problems.push(json!({"what": "a second call changed or misreported the limit", "limit": limit}));
    }
    for (name, path) in paths() {
        // declared L+1 must be rejected by the limit
        if let Some(above) = (limit as u64).checked_add(1) {
            if above <= i64::MAX as u64 >> 1 {
                checks += 1;
                let r = path(above, above <= 1 << 20);
                // snappy cannot express lengths above u32::MAX at all: any error is a rejection there
                let snappy_beyond_u32 = name.starts_with("snappy") && above > u32::MAX as u64 && matches!(r, Dec::OtherError(_));
                if r != Dec::RejectedByLimit && !snappy_beyond_u32 {
                    problems.push(json!({"path": name, "limit": limit, "declared": above, "expected": "rejected by the allocation limit", "observed": format!("{r:?}")}));
                }
            }
        }
        // declared L-1 and L are accepted (when the data can be supplied)
        if limit <= 1 << 20 {
            for d in [limit.saturating_sub(1), limit] {
                // the container header itself needs a few hundred bytes: below that the file
                // cannot be opened at all, which says nothing about the block size check
                if name.starts_with("container") && limit < 1024 {
                    continue;
                }
                checks += 1;
                let r = path(d as u64, true);
                if r != Dec::Accepted {
                    problems.push(json!({"path": name, "limit": limit, "declared": d, "expected": "accepted", "observed": format!("{r:?}")}));
                }
            }
        }
    }
    // array / map block counts: count * size_of::<Value>() against the limit
    let item = std::mem::size_of::<Value>() as u64;
    let max_items = limit as u64 / item;
    for (schema, what) in [(r#"{"type":"array","items":"null"}"#, "generic decoder: array block count")] {
        let schema = Schema::parse_str(schema).unwrap();
        let r = apache_avro::reader::datum::GenericDatumReader::builder(&schema).build().unwrap();
        for (count, expect_ok) in [(max_items, true), (max_items + 1, false)] {
            if count == 0 || count > 1 << 22 {
                continue;
            }
            checks += 1;
            let mut input = varint(count);
            input.push(0);
            let got = classify(r.read_value(&mut &input[..]));
            let ok = if expect_ok { got == Dec::Accepted } else { got == Dec::RejectedByLimit };
            if !ok {
                problems.push(json!({"path": what, "limit": limit, "items": count, "expected": if expect_ok { "accepted" } else { "rejected by the allocation limit" }, "observed": format!("{got:?}")}));
            }
        }
    }
    // both block layouts (count, and negative count followed by a byte size), both decoders, arrays and
    // maps: a block that announces more items than the limit allows is rejected before any item is read
    {
        let neg = |count: u64| -> Vec<u8> {
            // zig-zag of -count, then a byte size of 0
            let mut z = (count << 1) - 1;
            let mut out = vec![];
            loop {
                let b = (z & 0x7f) as u8;
                z >>= 7;
                if z == 0 {
                    out.push(b);
                    break;
                }
                out.push(b | 0x80);
            }
            out.push(0);
            out
        };
        let arr = Schema::parse_str(r#"{"type":"array","items":"null"}"#).unwrap();
        let map = Schema::parse_str(r#"{"type":"map","values":"null"}"#).unwrap();
        let ra = apache_avro::reader::datum::GenericDatumReader::builder(&arr).build().unwrap();
        let rm = apache_avro::reader::datum::GenericDatumReader::builder(&map).build().unwrap();
        let lim = limit as u64;
        if lim < (i64::MAX as u64 >> 2) {
            for negative in [false, true] {
                let head = |count: u64| if negative { neg(count) } else { varint(count) };
                let layout = if negative { "negative count + byte size" } else { "count" };
                // generic decoder: count * size_of::<Value>() is bounded, so limit + 1 items is far above
                // the schema-aware deserializer bounds the count itself by the limit
                let above = lim + 1;
                let mut input = head(above);
                input.push(0);
                let cases: Vec<(&str, Dec)> = vec![
                    ("generic decoder: array block", classify(ra.read_value(&mut &input[..]))),
                    ("generic decoder: map block", classify(rm.read_value(&mut &input[..]))),
                    ("schema-aware deserializer: array block", classify(ra.read_deser::<Vec<()>>(&mut &input[..]))),
                    ("schema-aware deserializer: map block", classify(rm.read_deser::<std::collections::HashMap<String, ()>>(&mut &input[..]))),
                ];
                for (what, got) in cases {
                    checks += 1;
                    // an input that ends before the announced items is also an error, but then the limit was
                    // not what stopped it: only arrays of zero-width items can tell, maps run out of keys
                    let ok = got == Dec::RejectedByLimit || (what.contains("map") && matches!(got, Dec::OtherError(_)) && false);
                    if !ok {
                        problems.push(json!({"path": what, "layout": layout, "limit": limit, "items_announced": above, "expected": "rejected by the allocation limit", "observed": format!("{got:?}")}));
                    }
                }
                // at the limit the deserializer accepts an array of zero-width items
                if lim >= 1 && lim <= 1 << 20 {
                    checks += 1;
                    let mut input = head(lim);
                    input.push(0);
                    let got = classify(ra.read_deser::<Vec<()>>(&mut &input[..]));
                    if got != Dec::Accepted {
                        problems.push(json!({"path": "schema-aware deserializer: array block", "layout": layout, "limit": limit, "items_announced": lim, "expected": "accepted", "observed": format!("{got:?}")}));
                    }
                }
            }
        }
    }
    // the limit holds for a container block whatever the same reader read before: after blocks within the
    // limit (which leave a reused buffer of some length and capacity behind), a block whose byte size is
    // above the limit - made of items that are each within it, all bytes present - is rejected
    if (1024..=1 << 20).contains(&limit) {
        let schema = Schema::parse_str(r#""bytes""#).unwrap();
        // item payload sizes per block, as fractions of the limit in tenths: the last block is above the limit
        let histories: [&[&[usize]]; 4] = [&[&[7], &[8], &[4, 4, 4]], &[&[9], &[5, 5, 5]], &[&[3], &[6, 6]], &[&[5, 5, 5]]];
        for (hi, blocks) in histories.iter().enumerate() {
            // (uncompressed: there the declared byte size is the size of the data)
            for codec in [apache_avro::Codec::Null] {
                checks += 1;
                // (a block size the appends never reach: blocks end only at the explicit flushes)
                let mut w = apache_avro::Writer::builder().schema(&schema).writer(Vec::new()).codec(codec).block_size(limit * 8).build().unwrap();
                let mut n_before = 0usize;
                for (bi, items) in blocks.iter().enumerate() {
                    for tenths in items.iter() {
                        w.append_value(Value::Bytes(vec![bi as u8 + 1; limit * tenths / 10])).unwrap();
                    }
                    w.flush().unwrap();
                    if bi + 1 < blocks.len() {
                        n_before += items.len();
                    }
                }
                let bytes = w.into_inner().unwrap();
                let got: Vec<Result<Value, String>> = match apache_avro::Reader::new(&bytes[..]) {
                    Ok(r) => r.take(16).map(|x| x.map_err(|e| e.to_string())).collect(),
                    Err(e) => vec![Err(format!("open: {e}"))],
                };
                let delivered = got.iter().filter(|x| x.is_ok()).count();
                if delivered != n_before || got.len() != n_before + 1 {
                    problems.push(json!({"path": "container block after earlier blocks", "codec": format!("{codec:?}"), "history": hi, "limit": limit, "block_item_sizes_in_tenths_of_the_limit": format!("{blocks:?}"), "expected": format!("{n_before} value(s), then one error for the block above the limit"), "observed": format!("{} value(s) delivered, {} item(s) in all; last: {}", delivered, got.len(), got.last().map(|x| match x { Ok(_) => "a value".to_string(), Err(e) => e.chars().take(120).collect() }).unwrap_or_default())}));
                }
            }
        }
    }
    println!("{}", json!({"limit": limit, "checks": checks, "problems": problems}));
    0
}

/// Real std cell, real OS threads, no shim: two setters and two users; whatever primitive the
/// settings use, all four must agree on one of the two values.
fn plain_threads_child() -> i32 {
    let barrier = Arc::new(std::sync::Barrier::new(4));
    let mut hs = vec![];
    for i in 0..4 {
        let b = barrier.clone();
        hs.push(std::thread::spawn(move || {
            b.wait();
            match i {
                0 => apache_avro::util::max_allocation_bytes(LIM_A),
                1 => apache_avro::util::max_allocation_bytes(LIM_B),
                _ => {
                    let _ = accepts_bytes_len(150);
                    apache_avro::util::max_allocation_bytes(12345)
                }
            }
        }));
    }
    let vals: Vec<usize> = hs.into_iter().map(|h| h.join().unwrap()).collect();
    let after = apache_avro::util::max_allocation_bytes(999);
    let ok = vals.iter().all(|v| *v == after) && [LIM_A, LIM_B, 12345, apache_avro::util::DEFAULT_MAX_ALLOCATION_BYTES].contains(&after);
    println!("{}", json!({"reported": vals, "after": after, "ok": ok}));
    0
}

fn main() {
    let args: Vec<String> = std::env::args().collect();
    if args.len() >= 3 && args[1] == "limit-child" {
        std::process::exit(limit_child(args[2].parse().unwrap()));
    }
    if args.len() >= 6 && args[1] == "seq-child" {
        let si: usize = args[2].parse().unwrap();
        let pi: usize = args[3].parse().unwrap();
        let tier = if args[4] == "thorough" { Tier::Thorough } else { Tier::Quick };
        let order: Vec<usize> = args[5].split(',').filter(|x| !x.is_empty()).map(|x| x.parse().unwrap()).collect();
        let setting = settings()[si].clone();
        let prog = scenarios(tier)[pi].clone();
        let mut next = vec![0usize; prog.len()];
        let mut log = vec![];
        for t in order {
            let op = prog[t][next[t]];
            next[t] += 1;
            log.push((t, op, widen(setting.run(op), op, &prog)));
        }
        let fin = setting.settle();
        let firsts: u8 = prog.iter().fold(0, |m, ops| m | setting.installs(ops[0]));
        // sequential: the very first operation executed decides
        let first_installed = log.first().map(|(t, _, _)| setting.installs(prog[*t][0])).unwrap_or(firsts);
        let ok = fin != 0 && log.iter().all(|x| x.2 & fin == fin) && fin & first_installed == fin;
        println!("{}", json!({"ok": ok, "log": log.iter().map(|(t, o, v)| format!("t{t}:{o:?}->{}", mask_name(*v))).collect::<Vec<_>>(), "final": mask_name(fin), "first_operation_installs": mask_name(first_installed)}));
        std::process::exit(0);
    }
    if args.len() >= 2 && args[1] == "plain-threads-child" {
        std::process::exit(plain_threads_child());
    }
    let tier = if args.get(1).map(|s| s.as_str()) == Some("thorough") { Tier::Thorough } else { Tier::Quick };
    let instrumented = std::env::var("VERIF_C19_INSTRUMENTED").map(|v| v == "1").unwrap_or(true);
    std::panic::set_hook(Box::new(|_| {}));
    let start = Instant::now();
    let mut st = Stats::default();
    // (1) interleavings
    verif_once::set_sched_mode(true);
    let mut order = 0u64;
    for s in settings() {
        for prog in scenarios(tier) {
            order += 1;
            run_scenario(s.clone(), prog, &mut st, order);
        }
    }
    verif_once::set_sched_mode(false);
    // (2) uniform enforcement, one process per limit
    let exe = std::env::current_exe().unwrap();
    let limits: Vec<usize> = vec![0, 1, 55, 56, 57, 1023, 1024, 1025, 65_536, 1 << 20, 1 << 31, (1 << 32) + 1, usize::MAX - 1, usize::MAX];
    for (i, l) in limits.iter().enumerate() {
        let out = std::process::Command::new(&exe).args(["limit-child", &l.to_string()]).output().unwrap_or_else(|e| ev::machinery(&format!("limit child: {e}")));
        let j: J = serde_json::from_slice(&out.stdout).unwrap_or(json!({"problems": [{"what": "the limit child crashed", "limit": l, "status": format!("{:?}", out.status), "stderr": ev::trunc(&String::from_utf8_lossy(&out.stderr), 400)}], "checks": 0}));
        st.states += 1;
        st.evaluations += j["checks"].as_u64().unwrap_or(0).max(1);
        st.transitions += j["checks"].as_u64().unwrap_or(0);
        let problems = j["problems"].as_array().cloned().unwrap_or_default();
        if problems.is_empty() {
            st.outcome("limit-uniformly-enforced");
            st.class(format!("limit|{l}"));
        } else {
            st.outcome("violation:limit-not-uniform");
            st.violate(1_000 + i as u64, "the configured allocation limit is not the one every decoder applies", json!({"limit": l, "problems": problems}), json!({"limit": l}));
        }
    }
    // (2b) every operation-level interleaving of every thread program, each in a fresh process on the
    // uninstrumented primitives (operations as atomic units): sound whatever primitive the setting uses
    for (si, s) in settings().iter().enumerate() {
        for (pi, prog) in scenarios(tier).iter().enumerate().take(NAMED_PROGRAMS) {
            for sched in merges(&prog.iter().map(|t| t.len()).collect::<Vec<_>>()) {
                let arg = sched.iter().map(|t| t.to_string()).collect::<Vec<_>>().join(",");
                let out = std::process::Command::new(&exe).args(["seq-child", &si.to_string(), &pi.to_string(), tier.name(), &arg]).output().unwrap_or_else(|e| ev::machinery(&format!("seq child: {e}")));
                let j: J = serde_json::from_slice(&out.stdout).unwrap_or(json!({"ok": false, "crashed": format!("{:?}", out.status), "stderr": ev::trunc(&String::from_utf8_lossy(&out.stderr), 300)}));
                st.states += 1;
                st.evaluations += 1;
                st.transitions += sched.len() as u64;
                if j["ok"] == true {
                    st.outcome("fresh-process-interleaving-first-set-wins");
                } else {
                    st.outcome("violation:fresh-process-interleaving");
                    st.violate(3_000_000 + (si * 10_000 + pi * 100) as u64, "an operation-level interleaving (fresh process, uninstrumented) breaks first-set-wins", json!({"setting": s.name(), "threads": format!("{prog:?}"), "thread_order": arg, "observed": j}), json!({"setting": s.name()}));
                }
            }
        }
    }
    // (3) real threads on the real primitive (fresh processes, supporting evidence only for schedules,
    // but decisive for "all callers agree")
    for i in 0..(if tier == Tier::Quick { 20 } else { 200 }) {
        let out = std::process::Command::new(&exe).args(["plain-threads-child"]).output().unwrap_or_else(|e| ev::machinery(&format!("plain child: {e}")));
        let j: J = serde_json::from_slice(&out.stdout).unwrap_or(json!({"ok": false, "crashed": format!("{:?}", out.status)}));
        st.evaluations += 1;
        if j["ok"] == true {
            st.outcome("plain-threads-agree");
        } else {
            st.outcome("violation:plain-threads-disagree");
            st.violate(2_000 + i, "racing real threads report different allocation limits", j, json!({}));
        }
    }
    let rep = Report {
        id: "C19".into(),
        tier,
        level: "model_checking",
        rule: "(1) for each of the 7 process-wide settings and each thread program (2-3 threads x 1-3 operations from {set A, set B, first use}) shuttle's DFS explores every interleaving of the settings operations (each get/set/get_or_init of the instrumented cell is one atomic step and a scheduling point); per schedule all operations and a later read must observe one value, and it must be the value of some thread's first operation; (2) 14 limit values from 0 to usize::MAX, each in a fresh process: declared length L+1 rejected by the limit and L-1, L accepted on every decoder path (bytes/string in both decoders, fixed size, container block size, snappy declared length, deflate output, array block count); (3) fresh processes with 4 racing OS threads on the uninstrumented primitive. A class is a (setting, thread program) whose schedules produced at least two different observation logs, or a limit value".into(),
        bounds: json!({"settings": settings().len(), "thread_programs": scenarios(tier).len(), "limits": limits.iter().map(|l| l.to_string()).collect::<Vec<_>>(), "instrumented": instrumented}),
        assumptions: vec!["std::sync::OnceLock's methods are linearizable (the shim replaces each by one atomic step); weak-memory behaviour is not explored".into(), "the instrumentation rewrites `std::sync::OnceLock` imports of the crate at build time; a setting that stops using OnceLock is only covered by parts (2) and (3)".into()],
        exhaustive: true,
        extra: json!({}),
    };
    std::process::exit(ev::finish(rep, st, start));
}
