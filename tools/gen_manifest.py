#!/usr/bin/env python3
"""Generate MANIFEST.json from the table below (single source of truth for registered checks)."""
import json, sys
CHECKS = {
 "C01": ("model_checking", "E1 smallscope", "bounded-exhaustive enumeration of schema x value cases executed on the real datum writer/reader, judged by an independent value bridge",
         "Every (schema, value) of a bounded schema grammar and boundary-value alphabet is encoded and decoded by the real library; equality, exact consumption, validate/non-validate agreement and back-to-back concatenation are checked on each. Exhaustive within the stated bounds, nothing sampled.",
         "5 C01", "values outside the boundary alphabets, schemas deeper than the depth bound"),
 "C02": ("model_checking", "E1 smallscope + refbin", "bounded-exhaustive enumeration of (schema,value) and of every spec-legal byte layout, cross-checked against an independent encoder/decoder (refbin)",
         "Both directions against an independent implementation written from the specification: library bytes decoded by refbin (byte-equal to the canonical layout), and every block partition / signed count / map order layout emitted by refbin decoded by the library.",
         "5 C02", "refbin (self-tested against the specification's literal examples) is the trusted base"),
 "C06": ("model_checking", "E1 smallscope + refbin", "exhaustive enumeration of all byte strings up to length n over a steering alphabet plus all truncations/substitutions of valid encodings, each decoded by the real library and judged by validate/re-encode/re-decode and the strict reference decoder",
         "Every byte string of the bounded universe is decoded under every schema of SU; whenever the library returns Ok the value must validate, re-encode and re-decode to itself, and inputs the strict reference decoder finds truncated must be errors.",
         "5 C06", "truncation is decided by refbin; byte strings outside the alphabet/length bound not covered"),
}
def main():
    checks = []
    for pid, (cat, engine, technique, text, ref, note) in sorted(CHECKS.items()):
        checks.append({
            "property_id": pid,
            "quick_cmd": f"./check {pid} quick",
            "thorough_cmd": f"./check {pid} thorough",
            "evidence_file": f"/verif/evidence/{pid}.json",
            "replay_cmd_template": f"./check {pid} --replay {{path}}",
            "engine": engine,
            "level_claimed": {"category": cat, "text": text, "design_ref": f"DESIGN.md section {ref}"},
            "level_note": note,
            "technique": technique,
        })
    props = [json.loads(l)["id"] for l in open("/verif/properties.jsonl")]
    na = [{"property_id": p, "reason": "check not built yet in this session (planned, see DESIGN.md section 5); not claimed until it is green on the unchanged tree and red on a demo mutant"} for p in props if p not in CHECKS]
    m = {
        "version": 1,
        "setup_cmd": "./setup.sh",
        "hooks": {
            "guard": "cargo feature `verif-hooks` of apache-avro",
            "enable": "the harness depends on apache-avro by path (/repo/avro) with the feature list in harness/Cargo.toml",
            "baseline_off_cmd": "cd /repo && cargo nextest run --workspace --no-fail-fast --offline",
            "source_commits": [],
            "add_only": True,
        },
        "engines": [
            {"name": "E1 smallscope", "path": "harness/src", "serves_properties": sorted(CHECKS), "kind_free_text": "bounded-exhaustive enumeration of schemas x values x byte strings executed directly on the real library, judged by independent reference models"},
        ],
        "checks": checks,
        "not_applicable": na,
        "notes": "exit 0 = held (possibly with KNOWN-FINDING lines), 1 = VIOLATION, 2 = machinery failure. known_findings.json lists recorded/fixed defects.",
    }
    json.dump(m, open("/verif/MANIFEST.json", "w"), indent=1)
main()
