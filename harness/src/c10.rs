//! C10: schema -> JSON -> schema round trip. The meaning of a schema text is captured by an
//! independent semantic normal form `sem` (full names, structure, logical types, defaults, docs,
//! aliases, custom attributes); `sem(original) == sem(re-serialised)` needs no access to the
//! library's `Schema` internals.

use crate::ast::{full_name, join, primitive};
use crate::c12::base_texts;
use crate::ev::{self, guarded, Report, Stats, Tier};
use crate::texts::{self, strict_json};
use apache_avro::{Reader, Schema, Writer};
use rayon::prelude::*;
use serde_json::{json, Map, Value as J};
use std::time::Instant;

fn norm_numbers(j: &J) -> J {
    match j {
        J::Number(n) => {
            if let Some(f) = n.as_f64() {
                if f.fract() == 0.0 && f.abs() < 9.0e15 {
                    return json!(f as i64);
                }
            }
            j.clone()
        }
        J::Array(a) => J::Array(a.iter().map(norm_numbers).collect()),
        J::Object(o) => J::Object(o.iter().map(|(k, v)| (k.clone(), norm_numbers(v))).collect()),
        other => other.clone(),
    }
}

fn qualify(names: Option<&J>, ns: &Option<String>) -> J {
    match names.and_then(|a| a.as_array()) {
        Some(a) => J::Array(
            a.iter()
                .map(|x| match x.as_str() {
                    Some(s) if s.contains('.') => json!(s.trim_start_matches('.')),
                    Some(s) => json!(join(ns, s)),
                    None => x.clone(),
                })
                .collect(),
        ),
        None => J::Null,
    }
}

/// Semantic normal form of a schema JSON.
pub fn sem(j: &J, enclosing: Option<&str>) -> J {
    match j {
        J::String(s) => {
            if primitive(s).is_some() {
                json!({"type": s})
            } else if s.contains('.') {
                json!({"ref": s.trim_start_matches('.')})
            } else {
                json!({"ref": join(&enclosing.map(|x| x.to_string()), s)})
            }
        }
        J::Array(a) => json!({"union": a.iter().map(|x| sem(x, enclosing)).collect::<Vec<_>>()}),
        J::Object(o) => {
            let Some(ty) = o.get("type") else { return json!({"invalid": j}) };
            let t = match ty {
                J::String(t) => t.as_str(),
                other => return sem(other, enclosing),
            };
            let mut out = Map::new();
            let structural: &[&str];
            match t {
                "record" | "error" | "enum" | "fixed" => {
                    let name = o.get("name").and_then(|n| n.as_str()).unwrap_or("");
                    let (ns, simple) = full_name(name, o.get("namespace").and_then(|n| n.as_str()), enclosing);
                    out.insert("type".into(), json!(t));
                    out.insert("fullname".into(), json!(join(&ns, &simple)));
                    out.insert("aliases".into(), qualify(o.get("aliases"), &ns));
                    out.insert("doc".into(), o.get("doc").cloned().unwrap_or(J::Null));
                    match t {
                        "enum" => {
                            out.insert("symbols".into(), o.get("symbols").cloned().unwrap_or(J::Null));
                            out.insert("default".into(), o.get("default").cloned().unwrap_or(J::Null));
                            structural = &["type", "name", "namespace", "aliases", "doc", "symbols", "default"];
                        }
                        "fixed" => {
                            out.insert("size".into(), o.get("size").cloned().unwrap_or(J::Null));
                            structural = &["type", "name", "namespace", "aliases", "doc", "size"];
                        }
                        _ => {
                            let mut fields = vec![];
                            for f in o.get("fields").and_then(|f| f.as_array()).cloned().unwrap_or_default() {
                                let mut fo = Map::new();
                                if let Some(m) = f.as_object() {
                                    for (k, v) in m {
                                        match k.as_str() {
                                            "type" => {
                                                fo.insert("type".into(), sem(v, ns.as_deref()));
                                            }
                                            "default" => {
                                                fo.insert("default".into(), json!({"value": norm_numbers(v)}));
                                            }
                                            "order" => {
                                                if v != "ascending" {
                                                    fo.insert("order".into(), v.clone());
                                                }
                                            }
                                            "doc" => {
                                                if !v.is_null() {
                                                    fo.insert("doc".into(), v.clone());
                                                }
                                            }
                                            "aliases" => {
                                                if v.as_array().is_some_and(|a| !a.is_empty()) {
                                                    fo.insert("aliases".into(), v.clone());
                                                }
                                            }
                                            _ => {
                                                fo.insert(k.clone(), v.clone());
                                            }
                                        }
                                    }
                                }
                                fields.push(J::Object(fo));
                            }
                            out.insert("fields".into(), J::Array(fields));
                            structural = &["type", "name", "namespace", "aliases", "doc", "fields"];
                        }
                    }
                }
                "array" => {
                    out.insert("type".into(), json!("array"));
                    out.insert("items".into(), sem(o.get("items").unwrap_or(&J::Null), enclosing));
                    structural = &["type", "items"];
                }
                "map" => {
                    out.insert("type".into(), json!("map"));
                    out.insert("values".into(), sem(o.get("values").unwrap_or(&J::Null), enclosing));
                    structural = &["type", "values"];
                }
                p if primitive(p).is_some() => {
                    out.insert("type".into(), json!(p));
                    structural = &["type"];
                }
                other => {
                    let mut r = sem(&json!(other), enclosing);
                    // attributes next to a reference are not representable; ignore them
                    if let Some(m) = r.as_object_mut() {
                        m.remove("x");
                    }
                    return r;
                }
            }
            // everything else: logical type parameters and custom attributes
            for (k, v) in o {
                if !structural.contains(&k.as_str()) {
                    out.insert(format!("attr:{k}"), norm_numbers(v));
                }
            }
            if out.get("attr:logicalType") == Some(&json!("decimal")) && !out.contains_key("attr:scale") {
                out.insert("attr:scale".into(), json!(0));
            }
            // null / empty optional members are the same as absent ones
            out.retain(|k, v| !((k == "aliases" || k == "doc" || k == "default") && (v.is_null() || v.as_array().is_some_and(|a| a.is_empty()))));
            J::Object(out)
        }
        other => json!({"invalid": other}),
    }
}

fn first_diff(a: &J, b: &J, path: String) -> Option<String> {
    if a == b {
        return None;
    }
    match (a, b) {
        (J::Object(x), J::Object(y)) => {
            for k in x.keys().chain(y.keys()) {
                match (x.get(k), y.get(k)) {
                    (Some(p), Some(q)) => {
                        if let Some(d) = first_diff(p, q, format!("{path}/{k}")) {
                            return Some(d);
                        }
                    }
                    (p, q) => return Some(format!("{path}/{k}: {} vs {}", p.map(|v| v.to_string()).unwrap_or("<absent>".into()), q.map(|v| v.to_string()).unwrap_or("<absent>".into()))),
                }
            }
            None
        }
        (J::Array(x), J::Array(y)) if x.len() == y.len() => x.iter().zip(y).enumerate().find_map(|(i, (p, q))| first_diff(p, q, format!("{path}/{i}"))),
        _ => Some(format!("{path}: {} vs {}", ev::trunc(&a.to_string(), 120), ev::trunc(&b.to_string(), 120))),
    }
}

/// Input-side root causes of the recorded deviations.
fn deviation(original: &J, clause: &str, diff: &str) -> Option<&'static str> {
    fn any(j: &J, f: &dyn Fn(&Map<String, J>) -> bool) -> bool {
        match j {
            J::Object(o) => f(o) || o.values().any(|v| any(v, f)),
            J::Array(a) => a.iter().any(|v| any(v, f)),
            _ => false,
        }
    }
    let decimal_fixed = any(original, &|o| o.get("type") == Some(&json!("fixed")) && o.get("logicalType") == Some(&json!("decimal")));
    let empty_ns = any(original, &|o| o.get("namespace") == Some(&json!("")) || o.get("name").and_then(|n| n.as_str()).is_some_and(|n| n.starts_with('.')));
    let prim_attr = any(original, &|o| o.get("type").and_then(|t| t.as_str()).is_some_and(|t| primitive(t).is_some()) && o.keys().any(|k| k.starts_with("x-")));
    if clause == "not-strict-json" && decimal_fixed {
        return Some("D-C10-decimal-on-fixed-duplicate-precision-scale-keys");
    }
    if empty_ns && (clause == "meaning-changed" || clause == "reparse-failed" || clause == "header-schema-differs" || clause == "reparsed-schema-differs") && (diff.contains("fullname") || diff.contains("ref") || clause == "reparse-failed" || clause == "reparsed-schema-differs") {
        return Some("D-C10-explicit-null-namespace-not-preserved");
    }
    let ignored_logical = any(original, &|o| o.get("logicalType").and_then(|l| l.as_str()).is_some_and(|l| l == "x-unknown" || (l == "decimal" && o.get("precision").and_then(|p| p.as_u64()) < o.get("scale").and_then(|p| p.as_u64()))));
    if ignored_logical && (clause == "meaning-changed" || clause == "header-schema-differs") && diff.contains("attr:logicalType") {
        return Some("D-C10-ignored-logical-type-attribute-dropped");
    }
    if prim_attr && clause == "meaning-changed" && diff.contains("attr:x-") {
        return Some("D-C10-custom-attributes-on-primitives-dropped");
    }
    None
}

pub fn run(tier: Tier, replay: Option<&J>) -> i32 {
    let start = Instant::now();
    let depth = match tier {
        Tier::Quick => 3,
        Tier::Thorough => 4,
    };
    let bases = base_texts(depth);
    let only = replay.and_then(|r| r["base_idx"].as_u64()).map(|x| x as usize);
    let only_t = replay.and_then(|r| r["text_idx"].as_u64()).map(|x| x as usize);
    let st = bases
        .par_iter()
        .filter(|(i, _)| only.is_none_or(|o| o == *i))
        .map(|(bi, j)| {
            let mut st = Stats::default();
            let mut variants: Vec<(String, J)> = vec![("plain".into(), j.clone())];
            let decos = texts::decorations(j);
            for d in &decos {
                variants.push((d.name.to_string(), d.text.clone()));
            }
            if tier == Tier::Thorough {
                // every pair of decorations at (possibly) different nodes
                for d in decos.iter().take(40) {
                    for d2 in texts::decorations(&d.text).into_iter().take(40) {
                        variants.push((format!("{}+{}", d.name, d2.name), d2.text));
                    }
                }
            }
            for (ti, (name, tj)) in variants.iter().enumerate() {
                if only_t.is_some_and(|x| x != ti) {
                    continue;
                }
                let order = (*bi as u64) << 24 | ti as u64;
                st.states += 1;
                st.evaluations += 1;
                st.transitions += 3;
                let text = tj.to_string();
                let replay = json!({"base_idx": bi, "text_idx": ti});
                let r = guarded(|| one(tj, &text));
                let verdict: Result<(), (String, String)> = match r {
                    Ok(v) => v,
                    Err(p) => Err(("panic".into(), p)),
                };
                match verdict {
                    Ok(()) => {
                        st.outcome("round-trip-ok");
                        st.class(format!("{name}"));
                        if ti == 1 {
                            st.sample(|| json!({"decoration": name, "text": text}));
                        }
                    }
                    Err((clause, detail)) if clause == "not-accepted" => {
                        let _ = detail;
                        st.outcome("not-accepted(C11)");
                    }
                    Err((clause, detail)) => match deviation(tj, &clause, &detail) {
                        Some(dev) => {
                            st.outcome("known-deviation");
                            st.deviation(dev, || json!({"decoration": name, "text": tj, "clause": clause, "detail": detail}));
                        }
                        None => {
                            st.outcome(&format!("violation:{clause}:{name}"));
                            st.violate(order, &format!("{clause} ({name})"), json!({"decoration": name, "text": tj, "detail": detail}), replay);
                        }
                    },
                }
            }
            st
        })
        .reduce(Stats::default, Stats::merge);
    let rep = Report {
        id: "C10".into(),
        tier,
        level: "model_checking",
        rule: "texts = every schema of the universe x (plain + every single decoration at every node: docs with characters needing escapes, relative/qualified aliases, defaults of every JSON kind, custom attributes incl. on primitives, field order, namespace spellings incl. explicitly empty); for each accepted text: re-serialised JSON is strict (no duplicate keys), parses to a schema equal to the first, has the same independent semantic normal form as the original text, serialises identically a second time, and the container header written for it yields the same schema. A class is a decoration kind".into(),
        bounds: json!({"schema_depth": depth, "base_texts": bases.len(), "decorations_per_text": if tier == Tier::Quick { 1 } else { 2 }}),
        assumptions: vec!["`sem` (the semantic normal form) is the harness's reading of what a schema text denotes: full names, structure, logical types, defaults (numbers by value), docs, aliases (qualified), custom attributes".into()],
        exhaustive: replay.is_none(),
        extra: json!({}),
    };
    ev::finish(rep, st, start)
}

/// (clause, detail) on failure.
fn one(tj: &J, text: &str) -> Result<(), (String, String)> {
    let s = Schema::parse_str(text).map_err(|e| ("not-accepted".to_string(), e.to_string()))?;
    let j1 = serde_json::to_string(&s).map_err(|e| ("serialise-failed".to_string(), e.to_string()))?;
    strict_json(&j1).map_err(|e| ("not-strict-json".to_string(), format!("{e}: {}", ev::trunc(&j1, 400))))?;
    let s2 = Schema::parse_str(&j1).map_err(|e| ("reparse-failed".to_string(), format!("{e}: {}", ev::trunc(&j1, 400))))?;
    if s2 != s {
        return Err(("reparsed-schema-differs".into(), ev::trunc(&j1, 400)));
    }
    let j1v: J = serde_json::from_str(&j1).map_err(|e| ("not-strict-json".to_string(), e.to_string()))?;
    let (a, b) = (sem(tj, None), sem(&j1v, None));
    if let Some(d) = first_diff(&a, &b, String::new()) {
        return Err(("meaning-changed".into(), format!("{d} | serialised: {}", ev::trunc(&j1, 400))));
    }
    let j2 = serde_json::to_string(&s2).map_err(|e| ("serialise-failed".to_string(), e.to_string()))?;
    if j2 != j1 {
        return Err(("second-serialisation-differs".into(), format!("{} vs {}", ev::trunc(&j1, 300), ev::trunc(&j2, 300))));
    }
    // the container header embeds this JSON
    let bytes = Writer::new(&s, Vec::new()).and_then(|w| w.into_inner()).map_err(|e| ("header-write-failed".to_string(), e.to_string()))?;
    let reader = Reader::new(&bytes[..]).map_err(|e| ("header-read-failed".to_string(), e.to_string()))?;
    if reader.writer_schema() != &s {
        return Err(("header-schema-differs".into(), format!("{:?}", reader.writer_schema())));
    }
    let hv = serde_json::to_value(reader.writer_schema()).map_err(|e| ("serialise-failed".to_string(), e.to_string()))?;
    if let Some(d) = first_diff(&a, &sem(&hv, None), String::new()) {
        return Err(("header-schema-differs".into(), d));
    }
    Ok(())
}
