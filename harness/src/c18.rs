//! C18: single-object messages. (A) header/body conformance against refpcf + CRC-64-AVRO + refbin
//! over the schema corpus; (B) all operation sequences on one writer instance (engine E2);
//! (C) every single-bit header alteration and every truncation is rejected without decoding.

use crate::c13::{Ans, FaultSink};
use crate::corpus::{self, Sc};
use crate::ev::{self, guarded, hex, Report, Stats, Tier};
use crate::pcf;
use crate::refbin;
use crate::val::{self, from_lib, to_lib, veq};
use apache_avro::types::Value;
use apache_avro::{AvroSchema, GenericSingleObjectReader, GenericSingleObjectWriter, Schema, SpecificSingleObjectReader, SpecificSingleObjectWriter};
use rayon::prelude::*;
use serde::{Deserialize, Serialize};
use serde_json::{json, Value as J};
use std::io::Read;
use std::time::Instant;

#[derive(Serialize, Deserialize, AvroSchema, Clone, PartialEq, Debug)]
pub struct Evt {
    pub id: i64,
    pub name: String,
    pub tags: Vec<String>,
    pub note: Option<String>,
}

impl From<Evt> for Value {
    fn from(m: Evt) -> Value {
        Value::Record(vec![
            ("id".into(), Value::Long(m.id)),
            ("name".into(), Value::String(m.name)),
            ("tags".into(), Value::Array(m.tags.into_iter().map(Value::String).collect())),
            (
                "note".into(),
                match m.note {
                    None => Value::Union(0, Box::new(Value::Null)),
                    Some(n) => Value::Union(1, Box::new(Value::String(n))),
                },
            ),
        ])
    }
}

/// Needed by `SpecificSingleObjectReader::read_from_value`.
impl From<Value> for Evt {
    fn from(v: Value) -> Evt {
        apache_avro::from_value::<Evt>(&v).expect("a value read under Evt's own schema converts to Evt")
    }
}

const EVT_SCHEMA: &str = r#"{"type":"record","name":"Evt","fields":[{"name":"id","type":"long"},{"name":"name","type":"string"},{"name":"tags","type":{"type":"array","items":"string"}},{"name":"note","type":["null","string"]}]}"#;

fn has_logical(j: &J) -> bool {
    match j {
        J::Object(o) => o.contains_key("logicalType") || o.values().any(has_logical),
        J::Array(a) => a.iter().any(has_logical),
        _ => false,
    }
}

pub fn expected_header(json: &J) -> Vec<u8> {
    let canon = pcf::pcf(json).unwrap_or_else(|e| ev::machinery(&format!("refpcf failed on generated schema: {e}")));
    let fp = pcf::crc64_avro(canon.as_bytes());
    let mut h = vec![0xC3, 0x01];
    h.extend_from_slice(&fp.to_le_bytes());
    h
}

// ---------------------------------------------------------------------------------------------
// (A) header + body over the corpus

/// Records handed over bare in a union position (accepted by validation; the writer supplies the branch
/// index): every sequence of three messages over {bare, wrapped} x two values on ONE writer; each message
/// must be, byte for byte and in its returned length, the message a fresh writer produces for the wrapped
/// value, and must read back as the wrapped value.
fn part_a_bare(st: &mut Stats) {
    use apache_avro::types::Value;
    let inner_def = r#"{"type":"record","name":"Inner","fields":[{"name":"x","type":"int"}]}"#;
    let texts = [
        format!(r#"{{"type":"record","name":"Outer","fields":[{{"name":"inner","type":["null",{inner_def}]}},{{"name":"n","type":"int"}}]}}"#),
        format!(r#"["null",{inner_def}]"#),
        format!(r#"{{"type":"array","items":["null",{inner_def}]}}"#),
    ];
    let inner = |x: i32| Value::Record(vec![("x".into(), Value::Int(x))]);
    let wrap = |x: i32| Value::Union(1, Box::new(inner(x)));
    for (ti, text) in texts.iter().enumerate() {
        let Ok(schema) = Schema::parse_str(text) else {
            st.outcome("schema-not-accepted");
            continue;
        };
        let outer = |i: Value| Value::Record(vec![("inner".into(), i), ("n".into(), Value::Int(3))]);
        let pairs: Vec<(Value, Value)> = match ti {
            0 => [1, -70].iter().map(|&x| (outer(inner(x)), outer(wrap(x)))).collect(),
            1 => [1, -70].iter().map(|&x| (inner(x), wrap(x))).collect(),
            _ => vec![(Value::Array(vec![inner(1), inner(2), inner(3)]), Value::Array(vec![wrap(1), wrap(2), wrap(3)])), (Value::Array(vec![inner(9)]), Value::Array(vec![wrap(9)]))],
        };
        let fresh = |v: &Value| -> Option<Vec<u8>> {
            let mut out = vec![];
            GenericSingleObjectWriter::new_with_capacity(&schema, 8).and_then(|mut w| w.write_value_ref(v, &mut out)).ok()?;
            Some(out)
        };
        let Ok(reader) = GenericSingleObjectReader::builder().schema(schema.clone()).build() else { continue };
        for code in 0..64usize {
            let seq = [code % 4, code / 4 % 4, code / 16];
            st.states += 1;
            st.evaluations += 1;
            let Ok(mut w) = GenericSingleObjectWriter::new_with_capacity(&schema, 8) else { continue };
            let mut bad: Option<String> = None;
            for (k, &a) in seq.iter().enumerate() {
                st.transitions += 2;
                let (bare, wrapped) = &pairs[a / 2];
                let given = if a % 2 == 0 { bare } else { wrapped };
                let Some(expect) = fresh(wrapped) else {
                    bad = Some("a fresh writer refuses the wrapped value".into());
                    break;
                };
                let mut out = vec![];
                match guarded(|| w.write_value_ref(given, &mut out)) {
                    Ok(Ok(n)) if out == expect && n == out.len() => {}
                    other => {
                        bad = Some(format!("message {} ({}): returned {:?}, wrote {}, a fresh writer given the wrapped value writes {}", k + 1, if a % 2 == 0 { "bare record" } else { "wrapped" }, other, hex(&out), hex(&expect)));
                        break;
                    }
                }
                let mut cur: &[u8] = &out;
                if !matches!(guarded(|| reader.read_value(&mut cur)), Ok(Ok(g)) if g == *wrapped && cur.is_empty()) {
                    bad = Some(format!("message {} does not read back as the wrapped value", k + 1));
                    break;
                }
            }
            match bad {
                None => {
                    st.outcome("ok");
                    st.class(format!("bare|{ti}|{code}"));
                }
                Some(what) => {
                    st.outcome("bare-record-message-differs");
                    st.violate(3u64 << 60 | (ti as u64) << 8 | code as u64, "a record handed over bare in a union position: the message on a reused writer is not the message a fresh writer produces for the wrapped value", json!({"schema": text, "sequence": format!("{seq:?} (even = bare, odd = wrapped; value index = n / 2)"), "observed": what}), json!({"part": "A-bare", "schema": text, "sequence": seq}));
                }
            }
        }
    }
}

fn part_a(sc: &Sc, st: &mut Stats) {
    if has_logical(&sc.json) {
        // the canonical form of logical types is C12's subject (and a recorded deviation there)
        return;
    }
    let Ok(schema) = corpus::parse_lib(&sc.text) else {
        st.outcome("schema-not-accepted");
        return;
    };
    let header = expected_header(&sc.json);
    let vals = val::values(&sc.s, &sc.env, 1, 0);
    let w = guarded(|| GenericSingleObjectWriter::new_with_capacity(&schema, 16));
    let Ok(Ok(mut w)) = w else {
        st.violate((sc.idx as u64) << 24, "single-object writer could not be built", json!({"schema": sc.json}), json!({"part": "A", "schema_idx": sc.idx}));
        return;
    };
    let reader = GenericSingleObjectReader::builder().schema(schema.clone()).build();
    let Ok(reader) = reader else {
        st.violate((sc.idx as u64) << 24, "single-object reader could not be built", json!({"schema": sc.json}), json!({"part": "A", "schema_idx": sc.idx}));
        return;
    };
    for (vi, v) in vals.iter().enumerate() {
        let order = (sc.idx as u64) << 24 | vi as u64;
        st.states += 1;
        st.evaluations += 1;
        st.transitions += 2;
        let lv = to_lib(v, &sc.s, &sc.env);
        let mut out = vec![];
        let r = guarded(|| w.write_value_ref(&lv, &mut out));
        let replay = json!({"part": "A", "schema_idx": sc.idx, "value_idx": vi});
        match r {
            Ok(Ok(n)) => {
                let mut expect = header.clone();
                expect.extend(refbin::encode(v, &sc.s, &sc.env));
                let body_ok = if v.has_multi_map() { refbin::decode_all(&out[10.min(out.len())..], &sc.s, &sc.env).is_ok_and(|g| veq(&g, v)) && out.starts_with(&header) } else { out == expect };
                if !body_ok {
                    st.outcome("message-differs");
                    st.violate(order, "message is not C3 01 + LE CRC-64-AVRO(canonical form) + datum", json!({"schema": sc.json, "value": v.short(), "library": hex(&out), "expected": hex(&expect), "canonical_form": pcf::pcf(&sc.json).unwrap_or_default()}), replay);
                    continue;
                }
                if n != out.len() {
                    st.outcome("count-differs");
                    st.violate(order, "returned length differs from the bytes written", json!({"schema": sc.json, "value": v.short(), "returned": n, "written": out.len()}), replay);
                    continue;
                }
                let mut cur: &[u8] = &out;
                match guarded(|| reader.read_value(&mut cur)) {
                    Ok(Ok(got)) if cur.is_empty() && from_lib(&got, &sc.s, &sc.env).is_ok_and(|g| veq(&g, v)) => {
                        // the same message from a source that delivers 1 or 3 bytes per read
                        let mut chunk_bad = None;
                        for chunk in [1usize, 3] {
                            let mut src = crate::c01::ChunkReader { data: &out, pos: 0, chunk };
                            let r2 = guarded(|| reader.read_value(&mut src));
                            st.transitions += 1;
                            if !matches!(&r2, Ok(Ok(g2)) if src.pos == out.len() && from_lib(g2, &sc.s, &sc.env).is_ok_and(|g| veq(&g, v))) {
                                chunk_bad = Some((chunk, ev::trunc(&format!("{r2:?}"), 300)));
                                break;
                            }
                        }
                        if let Some((chunk, what)) = chunk_bad {
                            st.outcome("read-differs");
                            st.violate(order, "generic single-object reader does not return the value from a source that delivers a few bytes per read", json!({"schema": sc.json, "value": v.short(), "message": hex(&out), "bytes_per_read": chunk, "observed": what}), replay);
                            continue;
                        }
                        st.outcome("ok");
                        st.class(format!("{}|{}", sc.s.shape(&sc.env, 3), out.len()));
                        st.sample(|| json!({"schema": sc.json, "value": v.short(), "message": hex(&out)}));
                    }
                    other => {
                        st.outcome("read-differs");
                        st.violate(order, "generic single-object reader does not return the value", json!({"schema": sc.json, "value": v.short(), "message": hex(&out), "observed": ev::trunc(&format!("{other:?}"), 300)}), replay);
                    }
                }
            }
            other => {
                st.outcome("write-failed");
                st.violate(order, "writing a conforming value failed", json!({"schema": sc.json, "value": v.short(), "observed": format!("{other:?}")}), replay);
                // a failed write may have poisoned this writer; part B judges that. Start afresh.
                if let Ok(Ok(nw)) = guarded(|| GenericSingleObjectWriter::new_with_capacity(&schema, 16)) {
                    w = nw;
                }
            }
        }
    }
}

// ---------------------------------------------------------------------------------------------
// (B) operation sequences on one writer instance

#[derive(Clone, Copy, Debug, PartialEq)]
pub enum Op {
    Short,
    Medium,
    Long,
    FailValidate,
    FailEncode,
    SinkErr,
    SinkZero,
    ShortWrites,
}

const OPS: [Op; 8] = [Op::Short, Op::Medium, Op::FailValidate, Op::SinkErr, Op::Long, Op::FailEncode, Op::SinkZero, Op::ShortWrites];

fn evt(op: Op) -> Evt {
    match op {
        Op::Short => Evt { id: 1, name: String::new(), tags: vec![], note: None },
        Op::Long => Evt { id: i64::MIN, name: "n".repeat(300), tags: (0..20).map(|i| format!("tag{i}")).collect(), note: Some("a longer note".into()) },
        _ => Evt { id: 1 << 40, name: "hello world".into(), tags: vec!["a".into(), "bcd".into()], note: Some("n".into()) },
    }
}

/// A value that validation accepts but the encoder rejects, if the library has one (C07's subject).
fn encoder_failing_value(schema: &Schema) -> Option<Value> {
    let candidates = vec![
        // the trailing nullable field omitted: the encoder gives up after the first three fields (partial bytes)
        Value::Record(vec![("id".into(), Value::Long(5)), ("name".into(), Value::String("partial".into())), ("tags".into(), Value::Array(vec![Value::String("t".into())]))]),
        Value::Map([("id".to_string(), Value::Long(1)), ("name".to_string(), Value::String("x".into())), ("tags".to_string(), Value::Array(vec![])), ("note".to_string(), Value::Union(0, Box::new(Value::Null)))].into_iter().collect()),
        Value::Record(vec![("id".into(), Value::Long(1)), ("name".into(), Value::String("x".into()))]),
    ];
    for c in candidates {
        let validates = guarded(|| c.validate(schema)).unwrap_or(false);
        if validates {
            let w = apache_avro::writer::datum::GenericDatumWriter::builder(schema).validate(false).build().ok()?;
            if w.write_value_to_vec(c.clone()).is_err() {
                return Some(c);
            }
        }
    }
    None
}

struct BCtx {
    schema: Schema,
    header: Vec<u8>,
    fail_encode: Option<Value>,
    greader: GenericSingleObjectReader,
    treader: SpecificSingleObjectReader<Evt>,
}

/// Run one history on one fresh writer; returns Err(description) at the first violated step.
fn run_history(cx: &BCtx, hist: &[Op], transitions: &mut u64) -> Result<(), String> {
    let mut w = GenericSingleObjectWriter::new_with_capacity(&cx.schema, 8).map_err(|e| e.to_string())?;
    for (i, op) in hist.iter().enumerate() {
        *transitions += 1;
        let step = |msg: String| format!("step {i} {op:?}: {msg}");
        match op {
            Op::Short | Op::Medium | Op::Long | Op::ShortWrites => {
                let e = evt(*op);
                let v: Value = e.clone().into();
                let chunk = if *op == Op::ShortWrites { Some(3) } else { None };
                let mut sink = FaultSink::with(&[], chunk);
                let n = w.write_value_ref(&v, &mut sink).map_err(|err| step(format!("writing a conforming value failed: {err}")))?;
                let out = sink.0.borrow().accepted.clone();
                let mut expect = cx.header.clone();
                let (s, env) = crate::ast::refparse_str(EVT_SCHEMA).unwrap();
                let rv = from_lib(&v, &s, &env).map_err(|e| step(e))?;
                expect.extend(refbin::encode(&rv, &s, &env));
                if out != expect {
                    return Err(step(format!("message differs from the reference message for this value alone: got {} expected {}", ev::trunc(&hex(&out), 200), ev::trunc(&hex(&expect), 200))));
                }
                if n != out.len() {
                    return Err(step(format!("returned {n} but wrote {} bytes", out.len())));
                }
                let mut cur: &[u8] = &out;
                let g = cx.greader.read_value(&mut cur).map_err(|err| step(format!("generic reader: {err}")))?;
                if g != v || !cur.is_empty() {
                    return Err(step("generic reader returned a different value".into()));
                }
                let mut cur: &[u8] = &out;
                let t = cx.treader.read(&mut cur).map_err(|err| step(format!("typed reader: {err}")))?;
                if t != e || !cur.is_empty() {
                    return Err(step("typed reader returned a different value".into()));
                }
                // the other two reading entry points: typed value through the generic decoder, and the
                // generic reader's deserializer
                let mut cur: &[u8] = &out;
                let t2 = cx.treader.read_from_value(&mut cur).map_err(|err| step(format!("typed reader (read_from_value): {err}")))?;
                if t2 != e || !cur.is_empty() {
                    return Err(step("typed reader (read_from_value) returned a different value".into()));
                }
                let mut cur: &[u8] = &out;
                let t3: Evt = cx.greader.read_deser(&mut cur).map_err(|err| step(format!("generic reader (read_deser): {err}")))?;
                if t3 != e || !cur.is_empty() {
                    return Err(step("generic reader (read_deser) returned a different value".into()));
                }
            }
            Op::FailValidate => {
                let bad = Value::Record(vec![("id".into(), Value::String("not a long".into())), ("name".into(), Value::String("x".into())), ("tags".into(), Value::Array(vec![]))]);
                let mut sink = FaultSink::default();
                if w.write_value_ref(&bad, &mut sink).is_ok() {
                    return Err(step("a value that does not validate was written".into()));
                }
                let leaked = sink.0.borrow().accepted.len();
                if leaked != 0 {
                    return Err(step(format!("rejected value leaked {leaked} bytes to the sink")));
                }
            }
            Op::FailEncode => {
                let Some(bad) = &cx.fail_encode else { continue };
                let mut sink = FaultSink::default();
                if w.write_value_ref(bad, &mut sink).is_ok() {
                    continue; // encoder accepted it after all: nothing to judge here (C07's subject)
                }
                let leaked = sink.0.borrow().accepted.len();
                if leaked != 0 {
                    return Err(step(format!("failed write leaked {leaked} bytes to the sink")));
                }
            }
            Op::SinkErr | Op::SinkZero => {
                let v: Value = evt(Op::Medium).into();
                let mut sink = FaultSink::with(&[(0, if *op == Op::SinkErr { Ans::Err } else { Ans::Zero })], None);
                if w.write_value_ref(&v, &mut sink).is_ok() {
                    return Err(step("write to a failing sink returned Ok".into()));
                }
            }
        }
    }
    Ok(())
}

fn part_b(depth: usize, st: &mut Stats) {
    let schema = Schema::parse_str(EVT_SCHEMA).expect("schema");
    let json: J = serde_json::from_str(EVT_SCHEMA).unwrap();
    let cx = BCtx {
        header: expected_header(&json),
        fail_encode: encoder_failing_value(&schema),
        greader: GenericSingleObjectReader::builder().schema(schema.clone()).build().expect("reader"),
        treader: SpecificSingleObjectReader::<Evt>::new().expect("typed reader"),
        schema,
    };
    // typed writers: every call is an independent message
    for (i, op) in [Op::Short, Op::Medium, Op::Long].iter().enumerate() {
        let w = SpecificSingleObjectWriter::<Evt>::new().expect("typed writer");
        let e = evt(*op);
        for which in 0..2 {
            st.evaluations += 1;
            st.transitions += 1;
            let mut out = vec![];
            let r = if which == 0 { w.write_value(e.clone(), &mut out) } else { w.write_ref(&e, &mut out) };
            let mut first = vec![];
            GenericSingleObjectWriter::new_with_capacity(&cx.schema, 8).and_then(|mut g| g.write_value(e.clone().into(), &mut first)).ok();
            let mut cur: &[u8] = &out;
            let back = cx.treader.read(&mut cur);
            if !(r.as_ref().is_ok_and(|n| *n == out.len()) && out.starts_with(&cx.header) && out == first && back.as_ref().is_ok_and(|b| *b == e)) {
                st.violate(1 << 40 | (i * 2 + which) as u64, "typed single-object writer: message/count/read-back mismatch", json!({"value": format!("{e:?}"), "path": if which == 0 { "write_value" } else { "write_ref" }, "returned": format!("{r:?}"), "message": ev::trunc(&hex(&out), 300), "read_back": ev::trunc(&format!("{back:?}"), 200)}), json!({"part": "B-typed"}));
            } else {
                st.outcome("typed-ok");
            }
        }
    }
    // a typed writer built with a schema override (the same shape in another namespace): the header is the
    // fingerprint of THAT schema, and a generic reader for it reads the message
    {
        let mut j: J = serde_json::from_str(EVT_SCHEMA).unwrap();
        j["namespace"] = json!("other.ns");
        let over = Schema::parse(&j).expect("override schema");
        let header = expected_header(&j);
        let reader = GenericSingleObjectReader::builder().schema(over.clone()).build().expect("reader");
        for (i, op) in [Op::Short, Op::Medium].iter().enumerate() {
            st.evaluations += 1;
            st.transitions += 1;
            let e = evt(*op);
            let r = guarded(|| -> Result<Vec<u8>, String> {
                let w = SpecificSingleObjectWriter::<Evt>::builder().resolved(over.clone()).map_err(|e| e.to_string())?.build();
                let mut out = vec![];
                w.write_ref(&e, &mut out).map_err(|e| e.to_string())?;
                Ok(out)
            });
            let ok = matches!(&r, Ok(Ok(out)) if out.starts_with(&header) && {
                let mut cur: &[u8] = out;
                reader.read_value(&mut cur).is_ok_and(|g| g == Value::from(e.clone())) && cur.is_empty()
            });
            if ok {
                st.outcome("typed-override-ok");
            } else {
                st.violate(1 << 40 | (100 + i) as u64, "typed single-object writer with a schema override: header is not that schema's fingerprint or the message does not read back", json!({"value": format!("{e:?}"), "override_schema": j, "expected_header": hex(&header), "observed": ev::trunc(&format!("{r:?}"), 300)}), json!({"part": "B-typed"}));
            }
        }
    }
    // all histories up to `depth`
    let mut order = 2u64 << 40;
    fn rec(cx: &BCtx, hist: &mut Vec<Op>, depth: usize, st: &mut Stats, order: &mut u64) {
        if !hist.is_empty() {
            *order += 1;
            st.states += 1;
            st.evaluations += 1;
            let mut tr = 0;
            let r = guarded(|| run_history(cx, hist, &mut tr));
            st.transitions += tr;
            let verdict = match r {
                Ok(v) => v,
                Err(p) => Err(format!("panic: {p}")),
            };
            match verdict {
                Ok(()) => {
                    st.outcome("history-ok");
                    if hist.len() >= 2 && hist.iter().any(|o| matches!(o, Op::FailValidate | Op::FailEncode | Op::SinkErr | Op::SinkZero | Op::Long)) && matches!(hist.last(), Some(Op::Short | Op::Medium | Op::ShortWrites)) {
                        st.class(format!("{hist:?}"));
                    }
                    if hist.len() == 3 {
                        st.sample(|| json!({"history": format!("{hist:?}")}));
                    }
                }
                Err(msg) => {
                    st.outcome("history-violation");
                    st.violate(*order, "a message written after earlier messages / failed writes on the same writer is not the standalone message", json!({"history": format!("{hist:?}"), "observed": msg}), json!({"part": "B", "history": hist.iter().map(|o| format!("{o:?}")).collect::<Vec<_>>()}));
                    // longer histories with this prefix fail at the same step: do not extend
                    return;
                }
            }
        }
        if hist.len() == depth {
            return;
        }
        for op in OPS {
            hist.push(op);
            rec(cx, hist, depth, st, order);
            hist.pop();
        }
    }
    rec(&cx, &mut vec![], depth, st, &mut order);
}

// ---------------------------------------------------------------------------------------------
// (C) rejection of foreign / short headers

struct CountingReader<'a> {
    inner: &'a [u8],
    read: usize,
}

impl Read for CountingReader<'_> {
    fn read(&mut self, buf: &mut [u8]) -> std::io::Result<usize> {
        let n = self.inner.read(buf)?;
        self.read += n;
        Ok(n)
    }
}

fn part_c(st: &mut Stats) {
    let cases: Vec<(&str, Value)> = vec![
        (EVT_SCHEMA, evt(Op::Medium).into()),
        (r#""null""#, Value::Null),
        (r#"{"type":"record","name":"Z","fields":[{"name":"n","type":"null"}]}"#, Value::Record(vec![("n".into(), Value::Null)])),
        (r#""string""#, Value::String("abc".into())),
    ];
    for (ci, (text, v)) in cases.iter().enumerate() {
        let schema = Schema::parse_str(text).expect("schema");
        let mut msg = vec![];
        GenericSingleObjectWriter::new_with_capacity(&schema, 8).and_then(|mut w| w.write_value_ref(v, &mut msg)).expect("write");
        let reader = GenericSingleObjectReader::builder().schema(schema.clone()).build().expect("reader");
        let mut check = |input: Vec<u8>, what: String, ord: u64| {
            st.states += 1;
            st.evaluations += 1;
            st.transitions += 2;
            let mut r1 = CountingReader { inner: &input, read: 0 };
            let a = guarded(|| reader.read_value(&mut r1).is_ok());
            let mut r2 = CountingReader { inner: &input, read: 0 };
            let b = guarded(|| reader.read_deser::<serde::de::IgnoredAny>(&mut r2).is_ok());
            let over = r1.read > 10 || r2.read > 10;
            if a != Ok(false) || b != Ok(false) || over {
                st.outcome("foreign-accepted");
                st.violate(3 << 40 | (ci as u64) << 20 | ord, "a message with a foreign or short header was accepted or decoded past the header", json!({"schema": text, "alteration": what, "input": hex(&input), "read_value_ok": format!("{a:?}"), "read_deser_ok": format!("{b:?}"), "bytes_consumed": [r1.read, r2.read]}), json!({"part": "C"}));
            } else {
                st.outcome("foreign-rejected");
                st.class(format!("{ci}|{what}"));
            }
        };
        for bit in 0..80 {
            let mut m = msg.clone();
            m[bit / 8] ^= 1 << (bit % 8);
            check(m, format!("bit {bit} flipped"), bit as u64);
        }
        for cut in 0..10 {
            check(msg[..cut].to_vec(), format!("truncated to {cut} bytes"), 100 + cut as u64);
        }
    }
}

pub fn run(tier: Tier, replay: Option<&J>) -> i32 {
    let start = Instant::now();
    refbin::self_test();
    pcf::self_test();
    let depth = match tier {
        Tier::Quick => 5,
        Tier::Thorough => 7,
    };
    let corpus_depth = match tier {
        Tier::Quick => 3,
        Tier::Thorough => 4,
    };
    let corpus = corpus::build(corpus_depth, false);
    let part = replay.and_then(|r| r["part"].as_str()).map(|s| s.to_string());
    let only_schema = replay.and_then(|r| r["schema_idx"].as_u64()).map(|x| x as usize);
    let mut st = Stats::default();
    if part.is_none() || part.as_deref() == Some("A") {
        st = corpus
            .par_iter()
            .filter(|sc| only_schema.is_none_or(|i| i == sc.idx))
            .map(|sc| {
                let mut s = Stats::default();
                part_a(sc, &mut s);
                s
            })
            .reduce(Stats::default, Stats::merge);
    }
    if part.is_none() || part.as_deref().is_some_and(|p| p.starts_with('B')) {
        let mut s = Stats::default();
        part_b(depth, &mut s);
        st = st.merge(s);
    }
    if part.is_none() || part.as_deref() == Some("A-bare") {
        let mut s = Stats::default();
        part_a_bare(&mut s);
        st = st.merge(s);
    }
    if part.is_none() || part.as_deref() == Some("C") {
        let mut s = Stats::default();
        part_c(&mut s);
        st = st.merge(s);
    }
    let rep = Report {
        id: "C18".into(),
        tier,
        level: "model_checking",
        rule: "(A) every (schema without logical types, value) of the corpus: message == C3 01 + LE(CRC-64-AVRO(refpcf(schema text))) + refbin(value) and reads back; records handed over bare in a union position: every sequence of three messages over {bare, wrapped} x two values on one writer equals the fresh-writer message of the wrapped value; (B) every sequence up to the depth bound over {short, medium, long message, short-writing sink, value failing validation, value failing in the encoder, sink Err, sink Ok(0)} on ONE GenericSingleObjectWriter, each emitted message compared with the standalone reference message and read by the generic and typed readers; (C) all 80 single-bit header alterations and truncations to 0..9 bytes over 4 schemas incl. zero-width datums, with a counting reader. A class is a distinct history ending in a successful write after a failed/long one, a (schema shape, length) pair or a rejected alteration".into(),
        bounds: json!({"history_depth": depth, "ops": OPS.len(), "corpus_depth": corpus_depth, "schemas": corpus.len()}),
        assumptions: vec!["refpcf / CRC-64-AVRO / refbin are independent implementations, self-tested against published vectors".into(), "schemas with logical types are excluded from (A): their canonical form is judged by C12".into()],
        exhaustive: replay.is_none(),
        extra: json!({}),
    };
    ev::finish(rep, st, start)
}
