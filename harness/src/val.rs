//! Harness-owned value model `V`, boundary alphabets and the bridge to/from the library's `Value`.

use crate::ast::{Env, Lt, S};
use apache_avro::types::Value;
use apache_avro::{Days, Decimal, Duration, Millis, Months, Uuid};
use num_bigint::BigInt;
use std::collections::HashMap;

#[derive(Clone, Debug, PartialEq)]
pub enum V {
    Null,
    Bool(bool),
    Int(i32),
    Long(i64),
    Float(u32),
    Double(u64),
    Bytes(Vec<u8>),
    Str(String),
    Fixed(Vec<u8>),
    Enum(usize),
    Union(usize, Box<V>),
    Array(Vec<V>),
    /// entries in wire order; compared as a map (see `canon`)
    Map(Vec<(String, V)>),
    Record(Vec<V>),
    Decimal(BigInt),
    BigDec(BigInt, i64),
    Uuid([u8; 16]),
    Duration(u32, u32, u32),
}

impl V {
    /// Canonical form for comparison: map entries sorted by key.
    pub fn canon(&self) -> V {
        match self {
            V::Union(i, b) => V::Union(*i, Box::new(b.canon())),
            V::Array(a) => V::Array(a.iter().map(|x| x.canon()).collect()),
            V::Record(a) => V::Record(a.iter().map(|x| x.canon()).collect()),
            V::Map(m) => {
                let mut m: Vec<(String, V)> = m.iter().map(|(k, v)| (k.clone(), v.canon())).collect();
                m.sort_by(|a, b| a.0.cmp(&b.0));
                V::Map(m)
            }
            other => other.clone(),
        }
    }
    pub fn has_multi_map(&self) -> bool {
        match self {
            V::Union(_, b) => b.has_multi_map(),
            V::Array(a) | V::Record(a) => a.iter().any(|x| x.has_multi_map()),
            V::Map(m) => m.len() >= 2 || m.iter().any(|(_, v)| v.has_multi_map()),
            _ => false,
        }
    }
    pub fn short(&self) -> String {
        let s = format!("{self:?}");
        if s.len() > 300 { format!("{}…", &s[..s.char_indices().take(300).last().map(|x| x.0).unwrap_or(0)]) } else { s }
    }
}

pub fn int_alphabet() -> Vec<i32> {
    let mut v: Vec<i32> = vec![0, -1, 1];
    // zig-zag varint length boundaries: encoded length changes at |zz| = 2^7, 2^14, 2^21, 2^28
    for sh in [6u32, 13, 20, 27] {
        let b = 1i32 << sh;
        v.extend_from_slice(&[b - 1, b, -b, -b - 1]);
    }
    v.extend_from_slice(&[i32::MAX, i32::MIN, i32::MAX - 1, i32::MIN + 1]);
    v
}

pub fn long_alphabet() -> Vec<i64> {
    let mut v: Vec<i64> = vec![0, -1, 1];
    for sh in [6u32, 13, 20, 27, 34, 41, 48, 55, 62] {
        let b = 1i64 << sh;
        v.extend_from_slice(&[b - 1, b, -b, -b - 1]);
    }
    v.extend_from_slice(&[i64::MAX, i64::MIN, i32::MAX as i64, i32::MIN as i64, i32::MAX as i64 + 1, i32::MIN as i64 - 1]);
    v
}

pub fn float_alphabet() -> Vec<u32> {
    vec![
        0x0000_0000, // +0
        0x8000_0000, // -0
        0x3f80_0000, // 1.0
        0xbfc0_0000, // -1.5
        0x0000_0001, // subnormal
        0x0080_0000, // MIN_POSITIVE
        0x7f7f_ffff, // MAX
        0x7f80_0000, // +inf
        0xff80_0000, // -inf
        0x7fc0_0000, // quiet NaN
        0x7fc0_1234, // NaN with payload
        0x7f80_0001, // signalling NaN
        0xffc0_0000, // negative NaN
    ]
}

pub fn double_alphabet() -> Vec<u64> {
    vec![
        0x0000_0000_0000_0000,
        0x8000_0000_0000_0000,
        0x3ff0_0000_0000_0000,
        0xbff8_0000_0000_0000,
        0x0000_0000_0000_0001,
        0x0010_0000_0000_0000,
        0x7fef_ffff_ffff_ffff,
        0x7ff0_0000_0000_0000,
        0xfff0_0000_0000_0000,
        0x7ff8_0000_0000_0000,
        0x7ff8_0000_0000_1234,
        0x7ff0_0000_0000_0001,
        0xfff8_0000_0000_0000,
    ]
}

pub fn bytes_alphabet() -> Vec<Vec<u8>> {
    vec![
        vec![],
        vec![0],
        vec![0xff],
        vec![0xc3, 0x28],           // invalid UTF-8
        "é".as_bytes().to_vec(),
        (0..63u8).collect(),
        (0..64u8).collect(),        // length varint boundary (64 -> two bytes)
        vec![0x80; 3],
    ]
}

pub fn string_alphabet() -> Vec<String> {
    vec![
        String::new(),
        "a".into(),
        "é".into(),
        "\u{10FFFF}".into(),
        "\0".into(),
        "x".repeat(63),
        "y".repeat(64),
        "\"\\\n".into(),
    ]
}

fn take<T: Clone>(v: Vec<T>, level: usize, small: &[usize], tiny: &[usize]) -> Vec<T> {
    match level {
        0 => v,
        1 => small.iter().map(|&i| v[i].clone()).collect(),
        _ => tiny.iter().map(|&i| v[i].clone()).collect(),
    }
}

fn two_pow(n: u32) -> BigInt {
    BigInt::from(1) << n
}

/// Enumerate the value universe VU(S) at the given alphabet level (0 = full at the root).
pub fn values(s: &S, env: &Env, level: usize, depth: usize) -> Vec<V> {
    match s {
        S::Null => vec![V::Null],
        S::Boolean => vec![V::Bool(false), V::Bool(true)],
        S::Int => take(int_alphabet(), level, &[0, 1, 3, 19], &[0, 20]).into_iter().map(V::Int).collect(),
        S::Long => take(long_alphabet(), level, &[0, 1, 4, 39], &[0, 40]).into_iter().map(V::Long).collect(),
        S::Float => take(float_alphabet(), level, &[0, 3, 8, 10], &[1, 10]).into_iter().map(V::Float).collect(),
        S::Double => take(double_alphabet(), level, &[0, 3, 8, 10], &[1, 10]).into_iter().map(V::Double).collect(),
        S::Bytes => take(bytes_alphabet(), level, &[0, 1, 3, 6], &[0, 3]).into_iter().map(V::Bytes).collect(),
        S::String => take(string_alphabet(), level, &[0, 1, 2, 6], &[0, 2]).into_iter().map(V::Str).collect(),
        S::Fixed { size, .. } => {
            let all = vec![vec![0u8; *size], vec![0xffu8; *size], (0..*size).map(|i| (i * 37 + 1) as u8).collect()];
            take(all, level, &[0, 1, 2], &[1, 2]).into_iter().map(V::Fixed).collect()
        }
        S::Enum { symbols, .. } => (0..symbols.len()).map(V::Enum).collect(),
        S::Logical(lt, base) => match lt {
            Lt::Date | Lt::TimeMillis => values(&S::Int, env, level, depth),
            Lt::TimeMicros | Lt::TsMillis | Lt::TsMicros | Lt::TsNanos | Lt::LtsMillis | Lt::LtsMicros | Lt::LtsNanos => {
                values(&S::Long, env, level, depth)
            }
            Lt::Decimal { precision, .. } => {
                // conforming values have at most `precision` decimal digits (and fit the fixed width)
                let width: Option<usize> = match &**base {
                    S::Fixed { size, .. } => Some(*size),
                    _ => None,
                };
                let maxp: BigInt = BigInt::from(10).pow(*precision as u32) - BigInt::from(1);
                let mut all: Vec<BigInt> = [0i64, 1, -1, 127, 128, 129, -127, -128, -129, 255, 256, -255, -256, 32767, -32768, 32768, -32769]
                    .iter()
                    .map(|&x| BigInt::from(x))
                    .collect();
                all.push(maxp.clone());
                all.push(-maxp.clone());
                all.retain(|x| *x >= -maxp.clone() && *x <= maxp);
                if let Some(w) = width {
                    let bits = (8 * w) as u32;
                    all.retain(|x| *x >= -two_pow(bits - 1) && *x < two_pow(bits - 1));
                }
                all.dedup();
                let n = all.len();
                take(all, level, &[0, 1, 2, n - 1], &[2, n - 2]).into_iter().map(V::Decimal).collect()
            }
            Lt::BigDecimal => {
                let all = vec![
                    V::BigDec(BigInt::from(0), 0),
                    V::BigDec(BigInt::from(15), 1),
                    V::BigDec(BigInt::from(-15), 1),
                    V::BigDec(two_pow(70), 0),
                    V::BigDec(BigInt::from(-1), -3),
                    V::BigDec(BigInt::from(12345), 40),
                    V::BigDec(BigInt::from(128), 2),
                ];
                take(all, level, &[0, 2, 3, 4], &[2, 5])
            }
            Lt::Uuid => {
                let all = vec![
                    V::Uuid([0; 16]),
                    V::Uuid([0xff; 16]),
                    V::Uuid([0x67, 0xe5, 0x50, 0x44, 0x10, 0xb1, 0x42, 0x6f, 0x92, 0x47, 0xbb, 0x68, 0x0e, 0x5f, 0xe0, 0xc8]),
                ];
                take(all, level, &[0, 1, 2], &[1, 2])
            }
            Lt::Duration => {
                let all = vec![V::Duration(0, 0, 0), V::Duration(1, 2, 3), V::Duration(u32::MAX, u32::MAX, u32::MAX), V::Duration(0x01020304, 0, 0x80000000)];
                take(all, level, &[0, 1, 2, 3], &[1, 2])
            }
        },
        S::Array(items) => {
            let iv = values(items, env, (level + 1).min(2), depth + 1);
            let mut out = vec![V::Array(vec![])];
            let n = iv.len();
            // length 1: every item value; length 2 and 3: rotating picks
            for v in &iv {
                out.push(V::Array(vec![v.clone()]));
            }
            if level == 0 {
                for i in 0..n {
                    out.push(V::Array(vec![iv[i].clone(), iv[(i + 1) % n].clone()]));
                }
                out.push(V::Array(vec![iv[0].clone(), iv[n - 1].clone(), iv[n / 2].clone()]));
                if depth == 0 {
                    // block-count varint boundary: 63 | 64 items
                    out.push(V::Array((0..63).map(|i| iv[i % n].clone()).collect()));
                    out.push(V::Array((0..64).map(|i| iv[i % n].clone()).collect()));
                }
            } else if level == 1 {
                out.push(V::Array(vec![iv[0].clone(), iv[n - 1].clone()]));
                out.push(V::Array(vec![iv[n - 1].clone(), iv[0].clone(), iv[n / 2].clone()]));
            } else {
                out.truncate(2);
                out.push(V::Array(vec![iv[n - 1].clone(), iv[0].clone()]));
            }
            out
        }
        S::Map(vals) => {
            let iv = values(vals, env, (level + 1).min(2), depth + 1);
            let n = iv.len();
            let mut out = vec![V::Map(vec![])];
            for v in &iv {
                out.push(V::Map(vec![("a".into(), v.clone())]));
            }
            if level <= 1 {
                out.push(V::Map(vec![("a".into(), iv[0].clone()), ("é".into(), iv[n - 1].clone())]));
                if level == 0 {
                    out.push(V::Map(vec![("".into(), iv[n - 1].clone()), ("a".into(), iv[0].clone()), ("k".repeat(64), iv[n / 2].clone())]));
                    if depth == 0 {
                        out.push(V::Map((0..64).map(|i| (format!("k{i:02}"), iv[i % n].clone())).collect()));
                    }
                }
            } else {
                out.truncate(2);
                out.push(V::Map(vec![("a".into(), iv[n - 1].clone()), ("b".into(), iv[0].clone())]));
            }
            out
        }
        S::Union(branches) => {
            let mut out = vec![];
            for (i, b) in branches.iter().enumerate() {
                for v in values(b, env, (level + 1).min(2), depth + 1) {
                    out.push(V::Union(i, Box::new(v)));
                }
            }
            out
        }
        S::Record { fields, .. } => {
            // product of field alphabets; the level drops with the number of fields so the product stays small
            let lv = if fields.len() <= 1 { level } else { (level + 1).min(2) };
            let per: Vec<Vec<V>> = fields.iter().map(|f| values(&f.ty, env, lv.max(if depth > 0 { 1 } else { 0 }), depth + 1)).collect();
            let mut out: Vec<Vec<V>> = vec![vec![]];
            for p in &per {
                let mut next = Vec::with_capacity(out.len() * p.len());
                for o in &out {
                    for v in p {
                        let mut o2 = o.clone();
                        o2.push(v.clone());
                        next.push(o2);
                    }
                }
                out = next;
            }
            out.into_iter().map(V::Record).collect()
        }
        S::Ref(name) => {
            // recursion: cut at depth; recursive types must go through a nullable union / array / map
            if depth > 5 {
                return values_min(s, env);
            }
            let target = env.get(name).expect("ref");
            values(target, env, level.max(1), depth + 1)
        }
    }
}

/// Smallest value of a (possibly recursive) schema: used to close recursion.
pub fn values_min(s: &S, env: &Env) -> Vec<V> {
    fn min_of(s: &S, env: &Env, fuel: usize) -> Option<V> {
        if fuel == 0 {
            return None;
        }
        Some(match s {
            S::Null => V::Null,
            S::Array(_) => V::Array(vec![]),
            S::Map(_) => V::Map(vec![]),
            S::Union(b) => {
                for (i, x) in b.iter().enumerate() {
                    if let Some(v) = min_of(x, env, fuel - 1) {
                        return Some(V::Union(i, Box::new(v)));
                    }
                }
                return None;
            }
            S::Record { fields, .. } => {
                let mut out = vec![];
                for f in fields {
                    out.push(min_of(&f.ty, env, fuel - 1)?);
                }
                V::Record(out)
            }
            S::Ref(n) => return min_of(env.get(n)?, env, fuel - 1),
            other => values(other, env, 2, 0).into_iter().next()?,
        })
    }
    for fuel in 1..12 {
        if let Some(v) = min_of(s, env, fuel) {
            return vec![v];
        }
    }
    vec![]
}

fn uuid_text(b: &[u8; 16]) -> String {
    let h: String = b.iter().map(|x| format!("{x:02x}")).collect();
    format!("{}-{}-{}-{}-{}", &h[0..8], &h[8..12], &h[12..16], &h[16..20], &h[20..32])
}

pub fn uuid_canonical_text(b: &[u8; 16]) -> String {
    uuid_text(b)
}

/// Convert to the library's canonical `Value` representation for schema `s`.
pub fn to_lib(v: &V, s: &S, env: &Env) -> Value {
    let s = s.deref(env);
    match (v, s) {
        (V::Null, _) => Value::Null,
        (V::Bool(b), _) => Value::Boolean(*b),
        (V::Int(i), S::Logical(Lt::Date, _)) => Value::Date(*i),
        (V::Int(i), S::Logical(Lt::TimeMillis, _)) => Value::TimeMillis(*i),
        (V::Int(i), _) => Value::Int(*i),
        (V::Long(i), S::Logical(lt, _)) => match lt {
            Lt::TimeMicros => Value::TimeMicros(*i),
            Lt::TsMillis => Value::TimestampMillis(*i),
            Lt::TsMicros => Value::TimestampMicros(*i),
            Lt::TsNanos => Value::TimestampNanos(*i),
            Lt::LtsMillis => Value::LocalTimestampMillis(*i),
            Lt::LtsMicros => Value::LocalTimestampMicros(*i),
            Lt::LtsNanos => Value::LocalTimestampNanos(*i),
            _ => Value::Long(*i),
        },
        (V::Long(i), _) => Value::Long(*i),
        (V::Float(b), _) => Value::Float(f32::from_bits(*b)),
        (V::Double(b), _) => Value::Double(f64::from_bits(*b)),
        (V::Bytes(b), _) => Value::Bytes(b.clone()),
        (V::Str(x), _) => Value::String(x.clone()),
        (V::Fixed(b), _) => Value::Fixed(b.len(), b.clone()),
        (V::Enum(i), S::Enum { symbols, .. }) => Value::Enum(*i as u32, symbols[*i].clone()),
        (V::Enum(i), _) => Value::Enum(*i as u32, "?".into()),
        (V::Union(i, b), S::Union(br)) => Value::Union(*i as u32, Box::new(to_lib(b, &br[*i], env))),
        (V::Array(a), S::Array(it)) => Value::Array(a.iter().map(|x| to_lib(x, it, env)).collect()),
        (V::Map(m), S::Map(vt)) => {
            let mut h = HashMap::new();
            for (k, x) in m {
                h.insert(k.clone(), to_lib(x, vt, env));
            }
            Value::Map(h)
        }
        (V::Record(vals), S::Record { fields, .. }) => {
            Value::Record(fields.iter().zip(vals).map(|(f, x)| (f.name.clone(), to_lib(x, &f.ty, env))).collect())
        }
        (V::Decimal(n), S::Logical(Lt::Decimal { .. }, base)) => {
            let bytes = match &**base {
                S::Fixed { size, .. } => sign_extend(n, *size),
                _ => n.to_signed_bytes_be(),
            };
            Value::Decimal(Decimal::from(bytes))
        }
        (V::BigDec(n, scale), _) => Value::BigDecimal(bigdecimal::BigDecimal::new(n.clone(), *scale)),
        (V::Uuid(b), _) => Value::Uuid(Uuid::from_bytes(*b)),
        (V::Duration(m, d, ms), _) => Value::Duration(Duration::new(Months::new(*m), Days::new(*d), Millis::new(*ms))),
        (v, s) => panic!("to_lib: value {v:?} does not fit schema {s:?}"),
    }
}

pub fn sign_extend(n: &BigInt, size: usize) -> Vec<u8> {
    let raw = n.to_signed_bytes_be();
    let fill = if n.sign() == num_bigint::Sign::Minus { 0xff } else { 0 };
    if raw.len() >= size {
        return raw[raw.len() - size..].to_vec();
    }
    let mut out = vec![fill; size - raw.len()];
    out.extend_from_slice(&raw);
    out
}

/// Strict structural conversion from the library's `Value`: `Err` when the value is not in the
/// canonical representation for `s`.
pub fn from_lib(v: &Value, s: &S, env: &Env) -> Result<V, String> {
    let s = s.deref(env);
    let bad = || Err(format!("value {v:?} is not canonical for {}", s.kind()));
    Ok(match (s, v) {
        (S::Null, Value::Null) => V::Null,
        (S::Boolean, Value::Boolean(b)) => V::Bool(*b),
        (S::Int, Value::Int(i)) => V::Int(*i),
        (S::Long, Value::Long(i)) => V::Long(*i),
        (S::Float, Value::Float(x)) => V::Float(x.to_bits()),
        (S::Double, Value::Double(x)) => V::Double(x.to_bits()),
        (S::Bytes, Value::Bytes(b)) => V::Bytes(b.clone()),
        (S::String, Value::String(x)) => V::Str(x.clone()),
        (S::Fixed { size, .. }, Value::Fixed(n, b)) if n == size && b.len() == *size => V::Fixed(b.clone()),
        (S::Enum { symbols, .. }, Value::Enum(i, sym)) if symbols.get(*i as usize) == Some(sym) => V::Enum(*i as usize),
        (S::Union(br), Value::Union(i, b)) if (*i as usize) < br.len() => V::Union(*i as usize, Box::new(from_lib(b, &br[*i as usize], env)?)),
        (S::Array(it), Value::Array(a)) => V::Array(a.iter().map(|x| from_lib(x, it, env)).collect::<Result<_, _>>()?),
        (S::Map(vt), Value::Map(m)) => {
            let mut out = vec![];
            for (k, x) in m {
                out.push((k.clone(), from_lib(x, vt, env)?));
            }
            out.sort_by(|a, b| a.0.cmp(&b.0));
            V::Map(out)
        }
        (S::Record { fields, .. }, Value::Record(vals)) if vals.len() == fields.len() => {
            let mut out = vec![];
            for (f, (n, x)) in fields.iter().zip(vals) {
                if *n != f.name {
                    return Err(format!("record field {n} where {} expected", f.name));
                }
                out.push(from_lib(x, &f.ty, env)?);
            }
            V::Record(out)
        }
        (S::Logical(lt, _), v) => match (lt, v) {
            (Lt::Date, Value::Date(i)) => V::Int(*i),
            (Lt::TimeMillis, Value::TimeMillis(i)) => V::Int(*i),
            (Lt::TimeMicros, Value::TimeMicros(i)) => V::Long(*i),
            (Lt::TsMillis, Value::TimestampMillis(i)) => V::Long(*i),
            (Lt::TsMicros, Value::TimestampMicros(i)) => V::Long(*i),
            (Lt::TsNanos, Value::TimestampNanos(i)) => V::Long(*i),
            (Lt::LtsMillis, Value::LocalTimestampMillis(i)) => V::Long(*i),
            (Lt::LtsMicros, Value::LocalTimestampMicros(i)) => V::Long(*i),
            (Lt::LtsNanos, Value::LocalTimestampNanos(i)) => V::Long(*i),
            (Lt::Decimal { .. }, Value::Decimal(d)) => V::Decimal(BigInt::from(d.clone())),
            (Lt::BigDecimal, Value::BigDecimal(b)) => {
                let (n, e) = b.as_bigint_and_exponent();
                V::BigDec(n, e)
            }
            (Lt::Uuid, Value::Uuid(u)) => V::Uuid(*u.as_bytes()),
            (Lt::Duration, Value::Duration(d)) => V::Duration(u32::from(d.months()), u32::from(d.days()), u32::from(d.millis())),
            _ => return bad(),
        },
        _ => return bad(),
    })
}

/// Numeric equality for big decimals (value, not representation).
pub fn bigdec_eq(a: &(BigInt, i64), b: &(BigInt, i64)) -> bool {
    bigdecimal::BigDecimal::new(a.0.clone(), a.1) == bigdecimal::BigDecimal::new(b.0.clone(), b.1)
}

/// Deep equality as the properties define it: floats bit for bit, decimals numerically, maps as maps.
pub fn veq(a: &V, b: &V) -> bool {
    match (a, b) {
        (V::BigDec(x, xs), V::BigDec(y, ys)) => bigdec_eq(&(x.clone(), *xs), &(y.clone(), *ys)),
        (V::Union(i, x), V::Union(j, y)) => i == j && veq(x, y),
        (V::Array(x), V::Array(y)) | (V::Record(x), V::Record(y)) => x.len() == y.len() && x.iter().zip(y).all(|(p, q)| veq(p, q)),
        (V::Map(x), V::Map(y)) => {
            let (x, y) = (V::Map(x.clone()).canon(), V::Map(y.clone()).canon());
            match (x, y) {
                (V::Map(x), V::Map(y)) => x.len() == y.len() && x.iter().zip(&y).all(|(p, q)| p.0 == q.0 && veq(&p.1, &q.1)),
                _ => unreachable!(),
            }
        }
        (a, b) => a == b,
    }
}

/// Schema-less structural image of a library value (used to compare against a deviant model
/// whose output is not schema-conforming). Records keep values only; enums keep the index.
pub fn raw(v: &Value) -> V {
    match v {
        Value::Null => V::Null,
        Value::Boolean(b) => V::Bool(*b),
        Value::Int(i) | Value::Date(i) | Value::TimeMillis(i) => V::Int(*i),
        Value::Long(i)
        | Value::TimeMicros(i)
        | Value::TimestampMillis(i)
        | Value::TimestampMicros(i)
        | Value::TimestampNanos(i)
        | Value::LocalTimestampMillis(i)
        | Value::LocalTimestampMicros(i)
        | Value::LocalTimestampNanos(i) => V::Long(*i),
        Value::Float(x) => V::Float(x.to_bits()),
        Value::Double(x) => V::Double(x.to_bits()),
        Value::Bytes(b) => V::Bytes(b.clone()),
        Value::String(s) => V::Str(s.clone()),
        Value::Fixed(_, b) => V::Fixed(b.clone()),
        Value::Enum(i, _) => V::Enum(*i as usize),
        Value::Union(i, b) => V::Union(*i as usize, Box::new(raw(b))),
        Value::Array(a) => V::Array(a.iter().map(raw).collect()),
        Value::Map(m) => {
            let mut out: Vec<(String, V)> = m.iter().map(|(k, x)| (k.clone(), raw(x))).collect();
            out.sort_by(|a, b| a.0.cmp(&b.0));
            V::Map(out)
        }
        Value::Record(f) => V::Record(f.iter().map(|(_, x)| raw(x)).collect()),
        Value::Decimal(d) => V::Decimal(BigInt::from(d.clone())),
        Value::BigDecimal(b) => {
            let (n, e) = b.as_bigint_and_exponent();
            V::BigDec(n, e)
        }
        Value::Duration(d) => V::Duration(u32::from(d.months()), u32::from(d.days()), u32::from(d.millis())),
        Value::Uuid(u) => V::Uuid(*u.as_bytes()),
    }
}
