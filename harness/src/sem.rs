//! Semantic normal form of a schema JSON (shared by the types harness; same code as in c10.rs).
use crate::ast::{full_name, join, primitive};
use serde_json::{json, Map, Value as J};

fn norm_numbers(j: &J) -> J {
    match j {
        J::Number(n) => {
            if let Some(f) = n.as_f64() {
                if f.fract() == 0.0 && f.abs() < 9.0e15 {
                    return json!(f as i64);
                }
            }
            j.clone()
        }
        J::Array(a) => J::Array(a.iter().map(norm_numbers).collect()),
        J::Object(o) => J::Object(o.iter().map(|(k, v)| (k.clone(), norm_numbers(v))).collect()),
        other => other.clone(),
    }
}

fn qualify(names: Option<&J>, ns: &Option<String>) -> J {
    match names.and_then(|a| a.as_array()) {
        Some(a) => J::Array(
            a.iter()
                .map(|x| match x.as_str() {
                    Some(s) if s.contains('.') => json!(s.trim_start_matches('.')),
                    Some(s) => json!(join(ns, s)),
                    None => x.clone(),
                })
                .collect(),
        ),
        None => J::Null,
    }
}

/// Semantic normal form of a schema JSON.
pub fn sem(j: &J, enclosing: Option<&str>) -> J {
    match j {
        J::String(s) => {
            if primitive(s).is_some() {
                json!({"type": s})
            } else if s.contains('.') {
                json!({"ref": s.trim_start_matches('.')})
            } else {
                json!({"ref": join(&enclosing.map(|x| x.to_string()), s)})
            }
        }
        J::Array(a) => json!({"union": a.iter().map(|x| sem(x, enclosing)).collect::<Vec<_>>()}),
        J::Object(o) => {
            let Some(ty) = o.get("type") else { return json!({"invalid": j}) };
            let t = match ty {
                J::String(t) => t.as_str(),
                other => return sem(other, enclosing),
            };
            let mut out = Map::new();
            let structural: &[&str];
            match t {
                "record" | "error" | "enum" | "fixed" => {
                    let name = o.get("name").and_then(|n| n.as_str()).unwrap_or("");
                    let (ns, simple) = full_name(name, o.get("namespace").and_then(|n| n.as_str()), enclosing);
                    out.insert("type".into(), json!(t));
                    out.insert("fullname".into(), json!(join(&ns, &simple)));
                    out.insert("aliases".into(), qualify(o.get("aliases"), &ns));
                    out.insert("doc".into(), o.get("doc").cloned().unwrap_or(J::Null));
                    match t {
                        "enum" => {
                            out.insert("symbols".into(), o.get("symbols").cloned().unwrap_or(J::Null));
                            out.insert("default".into(), o.get("default").cloned().unwrap_or(J::Null));
                            structural = &["type", "name", "namespace", "aliases", "doc", "symbols", "default"];
                        }
                        "fixed" => {
                            out.insert("size".into(), o.get("size").cloned().unwrap_or(J::Null));
                            structural = &["type", "name", "namespace", "aliases", "doc", "size"];
                        }
                        _ => {
                            let mut fields = vec![];
                            for f in o.get("fields").and_then(|f| f.as_array()).cloned().unwrap_or_default() {
                                let mut fo = Map::new();
                                if let Some(m) = f.as_object() {
                                    for (k, v) in m {
                                        match k.as_str() {
                                            "type" => {
                                                fo.insert("type".into(), sem(v, ns.as_deref()));
                                            }
                                            "default" => {
                                                fo.insert("default".into(), json!({"value": norm_numbers(v)}));
                                            }
                                            "order" => {
                                                if v != "ascending" {
                                                    fo.insert("order".into(), v.clone());
                                                }
                                            }
                                            "doc" => {
                                                if !v.is_null() {
                                                    fo.insert("doc".into(), v.clone());
                                                }
                                            }
                                            "aliases" => {
                                                if v.as_array().is_some_and(|a| !a.is_empty()) {
                                                    fo.insert("aliases".into(), v.clone());
                                                }
                                            }
                                            _ => {
                                                fo.insert(k.clone(), v.clone());
                                            }
                                        }
                                    }
                                }
                                fields.push(J::Object(fo));
                            }
                            out.insert("fields".into(), J::Array(fields));
                            structural = &["type", "name", "namespace", "aliases", "doc", "fields"];
                        }
                    }
                }
                "array" => {
                    out.insert("type".into(), json!("array"));
                    out.insert("items".into(), sem(o.get("items").unwrap_or(&J::Null), enclosing));
                    structural = &["type", "items"];
                }
                "map" => {
                    out.insert("type".into(), json!("map"));
                    out.insert("values".into(), sem(o.get("values").unwrap_or(&J::Null), enclosing));
                    structural = &["type", "values"];
                }
                p if primitive(p).is_some() => {
                    out.insert("type".into(), json!(p));
                    structural = &["type"];
                }
                other => {
                    let mut r = sem(&json!(other), enclosing);
                    // attributes next to a reference are not representable; ignore them
                    if let Some(m) = r.as_object_mut() {
                        m.remove("x");
                    }
                    return r;
                }
            }
            // everything else: logical type parameters and custom attributes
            for (k, v) in o {
                if !structural.contains(&k.as_str()) {
                    out.insert(format!("attr:{k}"), norm_numbers(v));
                }
            }
            if out.get("attr:logicalType") == Some(&json!("decimal")) && !out.contains_key("attr:scale") {
                out.insert("attr:scale".into(), json!(0));
            }
            // null / empty optional members are the same as absent ones
            out.retain(|k, v| !((k == "aliases" || k == "doc" || k == "default") && (v.is_null() || v.as_array().is_some_and(|a| a.is_empty()))));
            J::Object(out)
        }
        other => json!({"invalid": other}),
    }
}

pub fn first_diff(a: &J, b: &J, path: String) -> Option<String> {
    if a == b {
        return None;
    }
    match (a, b) {
        (J::Object(x), J::Object(y)) => {
            for k in x.keys().chain(y.keys()) {
                match (x.get(k), y.get(k)) {
                    (Some(p), Some(q)) => {
                        if let Some(d) = first_diff(p, q, format!("{path}/{k}")) {
                            return Some(d);
                        }
                    }
                    (p, q) => return Some(format!("{path}/{k}: {} vs {}", p.map(|v| v.to_string()).unwrap_or("<absent>".into()), q.map(|v| v.to_string()).unwrap_or("<absent>".into()))),
                }
            }
            None
        }
        (J::Array(x), J::Array(y)) if x.len() == y.len() => x.iter().zip(y).enumerate().find_map(|(i, (p, q))| first_diff(p, q, format!("{path}/{i}"))),
        _ => Some(format!("{path}: {} vs {}", trunc(&a.to_string()), trunc(&b.to_string()))),
    }
}

fn trunc(s: &str) -> String { s.chars().take(120).collect() }
