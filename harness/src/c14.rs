//! C14 (engine E3): every cut offset and every marker/magic byte alteration of real container files.

use crate::c03::{codecs, kits, SchemaKit};
use crate::ev::{self, guarded, Report, Stats, Tier};
use crate::refocf;
use apache_avro::types::Value;
use apache_avro::{Codec, Reader, Schema, Writer};
use rayon::prelude::*;
use serde_json::{json, Value as J};
use std::time::Instant;

const MARKER: [u8; 16] = [0x11, 0x22, 0x33, 0x44, 0x55, 0x66, 0x77, 0x88, 0x99, 0xaa, 0xbb, 0xcc, 0xdd, 0xee, 0xf0, 0x0f];

pub struct FileCase {
    pub label: String,
    pub bytes: Vec<u8>,
    /// values per block
    pub blocks: Vec<Vec<Value>>,
    pub layout: refocf::Layout,
}

fn nth_value(kit: &SchemaKit, i: usize) -> Value {
    match i % 3 {
        0 => kit.small.clone(),
        1 => kit.small2.clone(),
        _ => kit.big.clone(),
    }
}

pub fn build_file(kit: &SchemaKit, schema: &Schema, codec: Codec, counts: &[usize]) -> Result<(Vec<u8>, Vec<Vec<Value>>), String> {
    let mut w = Writer::builder().schema(schema).writer(Vec::new()).codec(codec).marker(MARKER).block_size(1 << 30).build().map_err(|e| e.to_string())?;
    let mut blocks = vec![];
    let mut k = 0;
    for &n in counts {
        let mut vals = vec![];
        for _ in 0..n {
            let v = nth_value(kit, k);
            k += 1;
            w.append_value_ref(&v).map_err(|e| e.to_string())?;
            vals.push(v);
        }
        w.flush().map_err(|e| e.to_string())?;
        blocks.push(vals);
    }
    let bytes = w.into_inner().map_err(|e| e.to_string())?;
    Ok((bytes, blocks))
}

/// Observed behaviour of the real reader on `bytes`.
#[derive(Debug, PartialEq, Clone)]
pub struct Obs {
    pub open_ok: bool,
    pub values: Vec<Value>,
    pub errors: usize,
    /// items (Ok or Err) yielded after the first error
    pub after_error: usize,
    pub panic: Option<String>,
}

pub fn observe(bytes: &[u8]) -> Obs {
    let r = guarded(|| {
        let reader = match Reader::new(bytes) {
            Ok(r) => r,
            Err(_) => return Obs { open_ok: false, values: vec![], errors: 0, after_error: 0, panic: None },
        };
        let mut o = Obs { open_ok: true, values: vec![], errors: 0, after_error: 0, panic: None };
        for (i, item) in reader.enumerate() {
            if o.errors > 0 {
                o.after_error += 1;
            }
            match item {
                Ok(v) => {
                    if o.errors == 0 {
                        o.values.push(v)
                    }
                }
                Err(_) => o.errors += 1,
            }
            if i > 100_000 {
                break;
            }
        }
        o
    });
    match r {
        Ok(o) => o,
        Err(p) => Obs { open_ok: false, values: vec![], errors: 0, after_error: 0, panic: Some(p) },
    }
}

/// The same file through the typed iterator (`into_deser_iter`), into the universal deserialize_any
/// type: (opened, items before the first error, errors, items yielded after the first error).
pub fn observe_typed(bytes: &[u8]) -> Result<(bool, usize, usize, usize), String> {
    guarded(|| {
        let reader = match Reader::new(bytes) {
            Ok(r) => r,
            Err(_) => return (false, 0, 0, 0),
        };
        let (mut n, mut errors, mut after) = (0usize, 0usize, 0usize);
        // bounded: an iterator that is not latched after an error could repeat it for ever
        for item in reader.into_deser_iter::<crate::c06::Dyn>().take(200_000) {
            if errors > 0 {
                after += 1;
                if after > 1000 {
                    break;
                }
            }
            match item {
                Ok(_) => {
                    if errors == 0 {
                        n += 1
                    }
                }
                Err(_) => errors += 1,
            }
        }
        (true, n, errors, after)
    })
}

/// The typed iterator must deliver as many items, report as many errors and stop as the value iterator does.
fn typed_agrees(bytes: &[u8], obs: &Obs) -> Result<(), String> {
    // the two iterators over ONE reader: the value iterator is pulled until it reports its error, then the
    // same reader is handed over with into_deser_iter - what lies behind the damage must stay undelivered
    if obs.open_ok && obs.errors > 0 {
        let handed = guarded(|| {
            let Ok(mut reader) = Reader::new(bytes) else { return 0usize };
            for item in reader.by_ref() {
                if item.is_err() {
                    break;
                }
            }
            reader.into_deser_iter::<crate::c06::Dyn>().take(1000).filter(|i| i.is_ok()).count()
        });
        match handed {
            Err(p) => return Err(format!("typed iterator taken over from the value iterator panicked: {p}")),
            Ok(0) => {}
            Ok(n) => return Err(format!("after the value iterator reported the damage, the same reader converted with into_deser_iter delivered {n} more item(s)")),
        }
    }
    match observe_typed(bytes) {
        Err(p) => Err(format!("typed iterator (into_deser_iter) panicked: {p}")),
        Ok(t) if t == (obs.open_ok, obs.values.len(), obs.errors, obs.after_error) => Ok(()),
        Ok(t) => Err(format!("typed iterator (into_deser_iter) delivered (opened, items, errors, items after the first error) = {t:?}, the value iterator {:?}", (obs.open_ok, obs.values.len(), obs.errors, obs.after_error))),
    }
}

fn prefix_values(fc: &FileCase, nblocks: usize) -> Vec<Value> {
    fc.blocks[..nblocks].iter().flatten().cloned().collect()
}

/// Judge one cut. Returns Err(description) when the observation differs from the expectation.
fn judge_cut(fc: &FileCase, cut: usize, obs: &Obs) -> Result<(), (String, Option<&'static str>)> {
    if let Some(p) = &obs.panic {
        return Err((format!("panic: {p}"), None));
    }
    let l = &fc.layout;
    if cut < l.header_end {
        return if obs.open_ok { Err(("a file cut inside the header opened successfully".into(), None)) } else { Ok(()) };
    }
    if !obs.open_ok {
        return Err(("a file with a complete header failed to open".into(), None));
    }
    let whole = l.blocks.iter().filter(|b| b.end <= cut).count();
    let on_boundary = cut == l.header_end || l.blocks.iter().any(|b| b.end == cut);
    let expect_vals = prefix_values(fc, whole);
    if obs.values != expect_vals {
        return Err((format!("delivered {} values, expected exactly the {} values of the {} complete block(s)", obs.values.len(), expect_vals.len(), whole), None));
    }
    if obs.after_error > 0 {
        return Err(("items were delivered after an error".into(), None));
    }
    if on_boundary {
        if obs.errors != 0 {
            return Err(("a cut on a block boundary reported an error".into(), None));
        }
    } else if obs.errors != 1 {
        // recorded deviation: cut inside the block-count varint (after at least one of its bytes)
        let b = &l.blocks[whole];
        let dev = if cut > b.start && cut < b.start + varint_len(&fc.bytes[b.start..]) { Some("D-C14-partial-count-clean-eof") } else { None };
        return Err((format!("a cut inside block {whole} (offset {cut}, block starts at {}) ended without an error", b.start), dev));
    }
    Ok(())
}

fn varint_len(b: &[u8]) -> usize {
    let mut n = 0;
    while n < b.len() && b[n] & 0x80 != 0 {
        n += 1;
    }
    n + 1
}

pub fn run(tier: Tier, replay: Option<&J>) -> i32 {
    let start = Instant::now();
    // block shapes: object counts per block (100 needs a two-byte count varint, 8200 a three-byte one)
    let shapes: Vec<Vec<usize>> = match tier {
        Tier::Quick => vec![vec![1, 2, 100], vec![64], vec![3, 1]],
        Tier::Thorough => vec![vec![1, 2, 100], vec![64], vec![3, 1], vec![1], vec![1, 1, 1, 1, 1], vec![2, 8200, 1]],
    };
    // alterations of a marker / magic byte: three (quick) or every other byte value (thorough)
    let nalt: usize = if tier == Tier::Quick { 3 } else { 255 };
    let mut cases: Vec<(usize, SchemaKit, &'static str, Codec, Vec<usize>)> = vec![];
    for counts in &shapes {
        for kit in kits() {
            for (cn, c) in codecs() {
                cases.push((cases.len(), kit.clone(), cn, c, counts.clone()));
            }
        }
    }
    let counts = shapes.clone();
    let only: Option<usize> = replay.and_then(|r| r["file_idx"].as_u64()).map(|x| x as usize);
    let st = cases
        .par_iter()
        .filter(|c| only.is_none_or(|o| o == c.0))
        .map(|(idx, kit, cn, codec, counts)| {
            let mut st = Stats::default();
            let schema = Schema::parse_str(kit.text).expect("kit schema");
            let (bytes, blocks) = match build_file(kit, &schema, *codec, counts) {
                Ok(x) => x,
                Err(e) => {
                    st.violate((*idx as u64) << 32, "could not build the file", json!({"schema": kit.name, "codec": cn, "error": e}), json!({"file_idx": idx}));
                    return st;
                }
            };
            let layout = match refocf::parse(&bytes) {
                Ok(l) => l,
                Err(e) => {
                    st.violate((*idx as u64) << 32, "reference parser rejects the library's file (see C04)", json!({"schema": kit.name, "codec": cn, "error": e}), json!({"file_idx": idx}));
                    return st;
                }
            };
            let fc = FileCase { label: format!("{}/{}/{:?}", kit.name, cn, counts), bytes, blocks, layout };
            let label = json!({"schema": kit.name, "codec": cn, "block_object_counts": counts, "file_len": fc.bytes.len(), "header_end": fc.layout.header_end, "block_ends": fc.layout.blocks.iter().map(|b| b.end).collect::<Vec<_>>()});
            // sanity: the intact file reads back completely
            let full = observe(&fc.bytes);
            if !(full.open_ok && full.errors == 0 && full.values == prefix_values(&fc, fc.blocks.len())) {
                st.violate((*idx as u64) << 32, "intact file does not read back", json!({"file": label, "observed": format!("{:?}", (full.open_ok, full.values.len(), full.errors))}), json!({"file_idx": idx}));
                return st;
            }
            // every cut offset
            for cut in 0..fc.bytes.len() {
                if let Some(r) = replay {
                    if r["cut"].as_u64() != Some(cut as u64) {
                        continue;
                    }
                }
                let order = (*idx as u64) << 32 | cut as u64;
                st.states += 1;
                st.evaluations += 1;
                let obs = observe(&fc.bytes[..cut]);
                st.transitions += (obs.values.len() + obs.errors + 1) as u64;
                match judge_cut(&fc, cut, &obs).and_then(|_| typed_agrees(&fc.bytes[..cut], &obs).map_err(|m| (m, None))) {
                    Ok(()) => {
                        st.outcome(if !obs.open_ok { "cut-header-err" } else if obs.errors == 0 { "cut-boundary-clean" } else { "cut-prefix-then-error" });
                        st.class(format!("{}|{}|{}|{}", fc.label, obs.open_ok, obs.values.len(), obs.errors));
                        if cut == fc.layout.header_end + 3 {
                            st.sample(|| json!({"file": label, "cut": cut, "delivered": obs.values.len(), "errors": obs.errors}));
                        }
                    }
                    Err((msg, Some(dev))) => {
                        st.outcome("known-deviation");
                        st.deviation(dev, || json!({"file": label, "cut": cut, "observed": msg}));
                    }
                    Err((msg, None)) => {
                        st.outcome("violation");
                        st.violate(order, "truncated file: not (true prefix, then error)", json!({"file": label, "cut": cut, "observed": msg, "delivered": obs.values.len(), "errors": obs.errors}), json!({"file_idx": idx, "cut": cut}));
                    }
                }
            }
            // every byte of every marker occurrence and of the magic, altered three ways
            let mut sites: Vec<(String, usize, usize)> = vec![]; // (kind, offset, block index or MAX)
            for i in 0..4 {
                sites.push(("magic".into(), i, usize::MAX));
            }
            for i in 0..16 {
                sites.push(("header-marker".into(), fc.layout.header_marker_at + i, usize::MAX));
            }
            for (k, b) in fc.layout.blocks.iter().enumerate() {
                for i in 0..16 {
                    sites.push(("block-marker".into(), b.marker_at + i, k));
                }
            }
            for (kind, off, k) in sites {
                for alt in 0..nalt {
                    if let Some(r) = replay {
                        if r["alter_offset"].as_u64() != Some(off as u64) || r["alt"].as_u64() != Some(alt as u64) {
                            continue;
                        }
                    }
                    let mut m = fc.bytes.clone();
                    let newb = if nalt == 3 {
                        match alt {
                            0 => m[off] ^ 0x01,
                            1 => m[off] ^ 0x80,
                            _ => 0,
                        }
                    } else {
                        // every other byte value
                        m[off].wrapping_add(1 + alt as u8)
                    };
                    if newb == m[off] {
                        continue;
                    }
                    m[off] = newb;
                    let order = (*idx as u64) << 40 | 1 << 39 | (off as u64) << 8 | alt as u64;
                    st.states += 1;
                    st.evaluations += 1;
                    let obs = observe(&m);
                    st.transitions += (obs.values.len() + obs.errors + 1) as u64;
                    let verdict: Result<(), String> = if let Some(p) = &obs.panic {
                        Err(format!("panic: {p}"))
                    } else {
                        match kind.as_str() {
                            "magic" => {
                                if obs.open_ok {
                                    Err("file with altered magic opened".into())
                                } else {
                                    Ok(())
                                }
                            }
                            "header-marker" => {
                                if obs.open_ok && obs.values.is_empty() && obs.errors == 1 && obs.after_error == 0 {
                                    Ok(())
                                } else {
                                    Err(format!("altered header marker: open={} values={} errors={}", obs.open_ok, obs.values.len(), obs.errors))
                                }
                            }
                            _ => {
                                let expect = prefix_values(&fc, k);
                                if obs.open_ok && obs.values == expect && obs.errors == 1 && obs.after_error == 0 {
                                    Ok(())
                                } else {
                                    Err(format!("altered marker of block {k}: delivered {} values (expected {}), errors={}, after_error={}", obs.values.len(), expect.len(), obs.errors, obs.after_error))
                                }
                            }
                        }
                    };
                    let verdict = verdict.and_then(|_| typed_agrees(&m, &obs));
                    match verdict {
                        Ok(()) => {
                            st.outcome(&format!("alter-{kind}-rejected"));
                            st.class(format!("{}|{kind}|{k}", fc.label));
                        }
                        Err(msg) => {
                            st.outcome("violation");
                            st.violate(order, "altered marker/magic: values of that or a later block delivered, or no error", json!({"file": label, "site": kind, "offset": off, "alteration": alt, "observed": msg}), json!({"file_idx": idx, "alter_offset": off, "alt": alt}));
                        }
                    }
                }
            }
            st
        })
        .reduce(Stats::default, Stats::merge);
    let rep = Report {
        id: "C14".into(),
        tier,
        level: "fault_enumeration",
        rule: "for every (schema, codec) real files of several block shapes (object counts per block as listed in the bounds: 100 needs a two-byte count, 8200 a three-byte one) are cut at every byte offset and has every byte of every sync-marker occurrence and of the magic altered (quick: ^01, ^80, :=00; thorough: to every other byte value); each damaged copy is read with the real Reader; a class is (file, opened?, values delivered, errors) resp. (file, site kind, block)".into(),
        bounds: json!({"files": cases.len(), "block_counts": counts, "schemas": ["null","int","string","record"], "alterations": if nalt == 3 { json!(["xor 01", "xor 80", "zero"]) } else { json!("every other byte value") }}),
        assumptions: vec!["block boundaries are taken from the independent layout parser refocf".into()],
        exhaustive: replay.is_none(),
        extra: json!({}),
    };
    ev::finish(rep, st, start)
}
