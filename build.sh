#!/bin/bash
# Build the harness (path-depends on /repo/avro with all codec features). Serialised with flock so
# concurrent checks do not fight over the target directory.
# Normal build: with the verification hooks of /repo (harness feature `hooks`). If that does not compile
# but a build WITHOUT the hooks does, the change under test broke only the hook code (which is off in
# production): the checks then run without them - C03 without state merging, C20 with the drain order
# left to the hash seed - and say so in their evidence (`caps_hit`, exhaustive=false).
cd "$(dirname "$0")/harness"
export CARGO_NET_OFFLINE=true
if flock target.lock cargo build --release --offline; then
  exit 0
fi
echo "build with hooks failed; trying without the hooks" >&2
exec flock target.lock cargo build --release --offline --no-default-features
