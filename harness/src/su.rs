//! Schema universe SU(d): bounded-exhaustive enumeration of schema shapes, emitted as JSON text.

use serde_json::{json, Value as J};

#[derive(Clone, Debug, PartialEq)]
pub enum Sh {
    Prim(&'static str),
    /// logical type on a primitive base: (logicalType, base)
    LogP(&'static str, &'static str),
    DecBytes(u64, u64),
    Fixed(usize),
    Enum(usize, bool),
    DecFixed(usize, u64, u64),
    UuidFixed,
    Duration,
    Array(Box<Sh>),
    Map(Box<Sh>),
    Union(Vec<Sh>),
    Record(Vec<Sh>),
}

pub fn leaves_full() -> Vec<Sh> {
    use Sh::*;
    vec![
        Prim("null"),
        Prim("boolean"),
        Prim("int"),
        Prim("long"),
        Prim("float"),
        Prim("double"),
        Prim("bytes"),
        Prim("string"),
        LogP("date", "int"),
        LogP("time-millis", "int"),
        LogP("time-micros", "long"),
        LogP("timestamp-millis", "long"),
        LogP("timestamp-micros", "long"),
        LogP("timestamp-nanos", "long"),
        LogP("local-timestamp-millis", "long"),
        LogP("local-timestamp-micros", "long"),
        LogP("local-timestamp-nanos", "long"),
        DecBytes(20, 2),
        LogP("big-decimal", "bytes"),
        LogP("uuid", "string"),
        LogP("uuid", "bytes"),
        Fixed(1),
        Fixed(16),
        Enum(2, false),
        Enum(3, true),
        DecFixed(2, 4, 1),
        UuidFixed,
        Duration,
    ]
}

pub fn leaves_mid() -> Vec<Sh> {
    use Sh::*;
    vec![
        Prim("null"),
        Prim("boolean"),
        Prim("int"),
        Prim("long"),
        Prim("double"),
        Prim("bytes"),
        Prim("string"),
        Enum(2, false),
        Fixed(1),
        LogP("date", "int"),
        DecBytes(20, 2),
        LogP("uuid", "string"),
    ]
}

pub fn leaves_small() -> Vec<Sh> {
    use Sh::*;
    vec![Prim("null"), Prim("int"), Prim("string"), Enum(2, false), Prim("double")]
}

/// Two shapes may not share a union if they are the same unnamed kind (spec: unions may not contain
/// more than one schema with the same type, except for named types) or if either is a union.
fn union_key(s: &Sh) -> String {
    match s {
        Sh::Prim(p) => p.to_string(),
        Sh::LogP(_, b) => b.to_string(),
        Sh::DecBytes(..) => "bytes".into(),
        Sh::Array(_) => "array".into(),
        Sh::Map(_) => "map".into(),
        Sh::Union(_) => "union".into(),
        // named types: distinct by name, always distinct here
        _ => format!("named{:p}", s as *const Sh),
    }
}

fn union_ok(bs: &[Sh]) -> bool {
    for (i, a) in bs.iter().enumerate() {
        if matches!(a, Sh::Union(_)) {
            return false;
        }
        for b in &bs[i + 1..] {
            if union_key(a) == union_key(b) {
                return false;
            }
        }
    }
    true
}

pub fn is_null(s: &Sh) -> bool {
    matches!(s, Sh::Prim("null"))
}

/// SU at depth 2 (one constructor over leaves) — the quick universe.
pub fn universe(depth: usize) -> Vec<Sh> {
    let full = leaves_full();
    let mid = leaves_mid();
    let small = leaves_small();
    let mut out: Vec<Sh> = full.clone();
    if depth < 2 {
        return out;
    }
    // one constructor over leaves
    let mut d2: Vec<Sh> = vec![];
    for t in &full {
        d2.push(Sh::Array(Box::new(t.clone())));
        d2.push(Sh::Map(Box::new(t.clone())));
        d2.push(Sh::Record(vec![t.clone()]));
        if !is_null(t) {
            d2.push(Sh::Union(vec![Sh::Prim("null"), t.clone()]));
            d2.push(Sh::Union(vec![t.clone(), Sh::Prim("null")]));
        }
        d2.push(Sh::Union(vec![t.clone()]));
    }
    // unions of 2 and 3 branches over the middle alphabet
    for (i, a) in mid.iter().enumerate() {
        for b in &mid[i + 1..] {
            if is_null(a) || is_null(b) {
                continue;
            }
            let u = vec![a.clone(), b.clone()];
            if union_ok(&u) {
                d2.push(Sh::Union(u.clone()));
                d2.push(Sh::Union(vec![Sh::Prim("null"), a.clone(), b.clone()]));
            }
        }
    }
    for (i, a) in small.iter().enumerate() {
        for (j, b) in small.iter().enumerate() {
            for (k, c) in small.iter().enumerate() {
                if i != j && j != k && i != k {
                    let u = vec![a.clone(), b.clone(), c.clone()];
                    if union_ok(&u) {
                        d2.push(Sh::Union(u));
                    }
                }
            }
        }
    }
    // records of 2 fields over the middle alphabet (ordered), 3 fields over the small one
    for a in &mid {
        for b in &mid {
            d2.push(Sh::Record(vec![a.clone(), b.clone()]));
        }
    }
    for a in &small {
        for b in &small {
            for c in &small {
                d2.push(Sh::Record(vec![a.clone(), b.clone(), c.clone()]));
            }
        }
    }
    out.extend(d2.clone());
    if depth < 3 {
        return out;
    }
    // depth 3: every constructor over the depth-2 constructors built from the small alphabet,
    // plus a nullable/array/map/record wrapper around every depth-2 schema
    let mut inner: Vec<Sh> = vec![];
    for t in &small {
        inner.push(Sh::Array(Box::new(t.clone())));
        inner.push(Sh::Map(Box::new(t.clone())));
        inner.push(Sh::Record(vec![t.clone()]));
        if !is_null(t) {
            inner.push(Sh::Union(vec![Sh::Prim("null"), t.clone()]));
        }
    }
    inner.push(Sh::Record(vec![Sh::Prim("int"), Sh::Prim("string")]));
    inner.push(Sh::Union(vec![Sh::Prim("int"), Sh::Prim("string")]));
    for t in &inner {
        out.push(Sh::Array(Box::new(t.clone())));
        out.push(Sh::Map(Box::new(t.clone())));
        out.push(Sh::Record(vec![t.clone()]));
        if !matches!(t, Sh::Union(_)) {
            out.push(Sh::Union(vec![Sh::Prim("null"), t.clone()]));
            out.push(Sh::Union(vec![t.clone(), Sh::Prim("string")]));
        }
        for u in &inner {
            out.push(Sh::Record(vec![t.clone(), u.clone()]));
            let un = vec![t.clone(), u.clone()];
            if union_ok(&un) {
                out.push(Sh::Union(un));
            }
        }
        for l in &small {
            out.push(Sh::Record(vec![l.clone(), t.clone()]));
            out.push(Sh::Record(vec![t.clone(), l.clone()]));
        }
    }
    if depth >= 4 {
        for t in &d2 {
            out.push(Sh::Array(Box::new(t.clone())));
            out.push(Sh::Map(Box::new(t.clone())));
            out.push(Sh::Record(vec![Sh::Prim("int"), t.clone()]));
            if !matches!(t, Sh::Union(_)) {
                out.push(Sh::Union(vec![Sh::Prim("null"), t.clone()]));
            }
        }
    }
    if depth >= 5 {
        // every ordered pair of the FULL leaf alphabet as a record and (where legal) as a union,
        // every ordered triple of the middle alphabet as a record
        for a in &full {
            for b in &full {
                out.push(Sh::Record(vec![a.clone(), b.clone()]));
                let u = vec![a.clone(), b.clone()];
                if union_ok(&u) {
                    out.push(Sh::Union(u));
                }
            }
        }
        for a in &mid {
            for b in &mid {
                for c in &mid {
                    out.push(Sh::Record(vec![a.clone(), b.clone(), c.clone()]));
                }
            }
        }
        // every two-level nesting of collection constructors over the middle alphabet, and three levels
        // over the small one
        let wrap = |t: &Sh| -> Vec<Sh> { vec![Sh::Array(Box::new(t.clone())), Sh::Map(Box::new(t.clone())), Sh::Record(vec![t.clone()]), Sh::Union(vec![Sh::Prim("null"), t.clone()])] };
        for t in &mid {
            for w1 in wrap(t) {
                if is_null(t) && matches!(w1, Sh::Union(_)) {
                    continue;
                }
                for w2 in wrap(&w1) {
                    if matches!(w1, Sh::Union(_)) && matches!(w2, Sh::Union(_)) {
                        continue;
                    }
                    out.push(w2);
                }
            }
        }
        for t in &small {
            for w1 in wrap(t) {
                if is_null(t) && matches!(w1, Sh::Union(_)) {
                    continue;
                }
                for w2 in wrap(&w1) {
                    if matches!(w1, Sh::Union(_)) && matches!(w2, Sh::Union(_)) {
                        continue;
                    }
                    for w3 in wrap(&w2) {
                        if matches!(w2, Sh::Union(_)) && matches!(w3, Sh::Union(_)) {
                            continue;
                        }
                        out.push(w3);
                    }
                }
            }
        }
    }
    out
}

pub struct Namer {
    pub n: usize,
}

impl Namer {
    fn next(&mut self, p: &str) -> String {
        self.n += 1;
        format!("{p}{}", self.n)
    }
}

pub fn to_json(s: &Sh, nm: &mut Namer) -> J {
    match s {
        Sh::Prim(p) => json!(p),
        Sh::LogP(l, b) => json!({"type": b, "logicalType": l}),
        Sh::DecBytes(p, sc) => json!({"type": "bytes", "logicalType": "decimal", "precision": p, "scale": sc}),
        Sh::Fixed(n) => json!({"type": "fixed", "name": nm.next("F"), "size": n}),
        Sh::Enum(n, def) => {
            let syms: Vec<String> = (0..*n).map(|i| format!("S{i}")).collect();
            if *def {
                json!({"type": "enum", "name": nm.next("E"), "symbols": syms, "default": "S1"})
            } else {
                json!({"type": "enum", "name": nm.next("E"), "symbols": syms})
            }
        }
        Sh::DecFixed(n, p, sc) => json!({"type": "fixed", "name": nm.next("D"), "size": n, "logicalType": "decimal", "precision": p, "scale": sc}),
        Sh::UuidFixed => json!({"type": "fixed", "name": nm.next("U"), "size": 16, "logicalType": "uuid"}),
        Sh::Duration => json!({"type": "fixed", "name": nm.next("P"), "size": 12, "logicalType": "duration"}),
        Sh::Array(i) => json!({"type": "array", "items": to_json(i, nm)}),
        Sh::Map(i) => json!({"type": "map", "values": to_json(i, nm)}),
        Sh::Union(b) => J::Array(b.iter().map(|x| to_json(x, nm)).collect()),
        Sh::Record(fs) => {
            let name = nm.next("R");
            let fields: Vec<J> = fs.iter().enumerate().map(|(i, f)| json!({"name": format!("f{i}"), "type": to_json(f, nm)})).collect();
            json!({"type": "record", "name": name, "fields": fields})
        }
    }
}

pub fn shape_json(s: &Sh) -> J {
    to_json(s, &mut Namer { n: 0 })
}

/// Hand-written naming templates: references, namespaces (inherited / overridden / dotted / empty),
/// recursion through union, array and map, mutual recursion.
/// Schemas whose *size* crosses a varint boundary: 130 union branches / enum symbols (indices 63|64
/// and 127|128 change the encoded length of the index).
pub fn wide_templates() -> Vec<(&'static str, J)> {
    let mut branches: Vec<J> = vec![json!("null")];
    for i in 1..130 {
        branches.push(json!({"type": "fixed", "name": format!("W{i}"), "size": 1}));
    }
    let symbols: Vec<String> = (0..130).map(|i| format!("Y{i}")).collect();
    vec![
        ("wide-union", J::Array(branches.clone())),
        ("wide-union-in-record", json!({"type":"record","name":"WR","fields":[{"name":"u","type": J::Array(branches)},{"name":"t","type":"int"}]})),
        ("wide-enum", json!({"type":"enum","name":"WE","symbols":symbols})),
    ]
}

pub fn naming_templates() -> Vec<(&'static str, J)> {
    vec![
        ("ref-fixed", json!({"type":"record","name":"R","fields":[{"name":"a","type":{"type":"fixed","name":"F","size":2}},{"name":"b","type":"F"}]})),
        ("ref-enum", json!({"type":"record","name":"R","fields":[{"name":"a","type":{"type":"enum","name":"E","symbols":["A","B"]}},{"name":"b","type":["null","E"]}]})),
        ("ref-record", json!({"type":"record","name":"R","fields":[{"name":"a","type":{"type":"record","name":"I","fields":[{"name":"x","type":"int"}]}},{"name":"b","type":{"type":"array","items":"I"}}]})),
        ("ref-decfixed", json!({"type":"record","name":"R","fields":[{"name":"a","type":{"type":"fixed","name":"D","size":3,"logicalType":"decimal","precision":5,"scale":2}},{"name":"b","type":"D"}]})),
        ("ref-duration", json!({"type":"record","name":"R","fields":[{"name":"a","type":{"type":"fixed","name":"P","size":12,"logicalType":"duration"}},{"name":"b","type":{"type":"map","values":"P"}}]})),
        ("ns-inherit", json!({"type":"record","name":"R","namespace":"a.b","fields":[{"name":"a","type":{"type":"enum","name":"E","symbols":["A","B"]}},{"name":"b","type":"E"},{"name":"c","type":"a.b.E"}]})),
        ("ns-override", json!({"type":"record","name":"R","namespace":"a.b","fields":[{"name":"a","type":{"type":"fixed","name":"F","namespace":"c","size":1}},{"name":"b","type":"c.F"}]})),
        ("ns-dotted", json!({"type":"record","name":"x.y.R","namespace":"ignored","fields":[{"name":"a","type":{"type":"fixed","name":"F","size":1}},{"name":"b","type":"x.y.F"},{"name":"c","type":"F"}]})),
        ("ns-nested-inherit", json!({"type":"record","name":"R","namespace":"n1","fields":[{"name":"a","type":{"type":"record","name":"M","namespace":"n2","fields":[{"name":"x","type":{"type":"enum","name":"E","symbols":["A"]}},{"name":"y","type":"E"}]}},{"name":"b","type":"n2.E"},{"name":"c","type":"n2.M"}]})),
        ("ns-same-simple-name", json!({"type":"record","name":"R","namespace":"n1","fields":[{"name":"a","type":{"type":"fixed","name":"X","size":1}},{"name":"b","type":{"type":"fixed","name":"X","namespace":"n2","size":2}},{"name":"c","type":"X"},{"name":"d","type":"n2.X"}]})),
        ("ns-shadowing-null-namespace-type", json!({"type":"record","name":"Holder","fields":[{"name":"plain","type":{"type":"fixed","name":"Node","size":2}},{"name":"tree","type":{"type":"record","name":"org.example.Node","fields":[{"name":"v","type":"int"},{"name":"next","type":["null","Node"]}]}},{"name":"plain2","type":"Node"}]})),
        ("rec-nullable", json!({"type":"record","name":"L","fields":[{"name":"v","type":"int"},{"name":"next","type":["null","L"]}]})),
        ("rec-array", json!({"type":"record","name":"T","fields":[{"name":"v","type":"string"},{"name":"kids","type":{"type":"array","items":"T"}}]})),
        ("rec-map", json!({"type":"record","name":"T","namespace":"q","fields":[{"name":"kids","type":{"type":"map","values":"T"}}]})),
        ("rec-mutual", json!({"type":"record","name":"A","fields":[{"name":"b","type":["null",{"type":"record","name":"B","fields":[{"name":"a","type":["null","A"]},{"name":"v","type":"long"}]}]}]})),
        ("union-named", json!([{"type":"fixed","name":"F1","size":1},{"type":"fixed","name":"F2","size":1},{"type":"enum","name":"E","symbols":["A"]},{"type":"record","name":"R","fields":[{"name":"f","type":"F1"}]}])),
        ("union-two-records", json!(["null",{"type":"record","name":"Created","fields":[{"name":"id","type":"long"},{"name":"owner","type":"string"}]},{"type":"record","name":"Renamed","fields":[{"name":"id","type":"long"},{"name":"new_name","type":"string"}]}])),
        ("union-two-records-same-names", json!([{"type":"record","name":"A","fields":[{"name":"x","type":"int"}]},{"type":"record","name":"B","fields":[{"name":"x","type":"string"}]},{"type":"record","name":"C","fields":[{"name":"x","type":"int"},{"name":"y","type":["null","A"]}]}])),
        ("union-two-records-in-record", json!({"type":"record","name":"Env","fields":[{"name":"seq","type":"long"},{"name":"ev","type":[{"type":"record","name":"P","fields":[{"name":"a","type":"int"},{"name":"b","type":"int"}]},{"type":"record","name":"Q","fields":[{"name":"a","type":"int"},{"name":"c","type":"int"}]}]}]})),
        ("union-two-enums-two-fixed", json!([{"type":"enum","name":"E1","symbols":["A","B"]},{"type":"enum","name":"E2","symbols":["B","C"]},{"type":"fixed","name":"G1","size":2},{"type":"fixed","name":"G2","size":3}])),
        ("union-in-array-in-map", json!({"type":"map","values":{"type":"array","items":["null","string",{"type":"array","items":"long"}]}})),
    ]
}

/// Schemas with explicitly empty namespaces / leading-dot names: these are legal by the
/// specification; kept apart because the library is known to mishandle them when re-serialising.
pub fn naming_templates_empty_ns() -> Vec<(&'static str, J)> {
    vec![
        ("ns-empty-nested", json!({"type":"record","name":"R","namespace":"a","fields":[{"name":"a","type":{"type":"fixed","name":"F","namespace":"","size":1}},{"name":"b","type":".F"}]})),
        ("ns-leading-dot", json!({"type":"record","name":"R","namespace":"a","fields":[{"name":"a","type":{"type":"enum","name":".E","symbols":["A","B"]}},{"name":"b","type":".E"}]})),
        ("ns-empty-record-with-children", json!({"type":"record","name":"Outer","namespace":"com.example","fields":[{"name":"t4","type":{"type":"fixed","name":"Tag","size":4}},{"name":"mid","type":{"type":"record","name":"Mid","namespace":"","fields":[{"name":"t8","type":{"type":"fixed","name":"Tag","size":8}},{"name":"again","type":"Tag"}]}},{"name":"back","type":"Tag"}]})),
        ("ns-leading-dot-record-with-children", json!({"type":"record","name":"Outer","namespace":"com.example","fields":[{"name":"mid","type":{"type":"record","name":".Mid","fields":[{"name":"e","type":{"type":"enum","name":"Kind","symbols":["A","B"]}},{"name":"e2","type":"Kind"}]}}]})),
    ]
}
