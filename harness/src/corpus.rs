//! The shared schema corpus: SU(d) shapes + naming templates, each with its JSON text and the
//! reference AST obtained by `refparse` (independent of the library).

use crate::ast::{refparse, Env, S};
use crate::su;
use serde_json::Value as J;

pub struct Sc {
    pub idx: usize,
    pub label: String,
    pub json: J,
    pub text: String,
    pub s: S,
    pub env: Env,
}

pub fn build(depth: usize, with_empty_ns: bool) -> Vec<Sc> {
    let mut out = vec![];
    let mut push = |label: String, json: J| {
        let (s, env) = refparse(&json).unwrap_or_else(|e| crate::ev::machinery(&format!("refparse rejects generated schema {json}: {e:?}")));
        let idx = out.len();
        out.push(Sc { idx, label, text: json.to_string(), json, s, env });
    };
    for sh in su::universe(depth) {
        let j = su::shape_json(&sh);
        push("su".to_string(), j);
    }
    for (l, j) in su::naming_templates() {
        push(l.to_string(), j);
    }
    for (l, j) in su::wide_templates() {
        push(l.to_string(), j);
    }
    if with_empty_ns {
        for (l, j) in su::naming_templates_empty_ns() {
            push(l.to_string(), j);
        }
    }
    out
}

pub fn parse_lib(text: &str) -> Result<apache_avro::Schema, String> {
    match crate::ev::guarded(|| apache_avro::Schema::parse_str(text)) {
        Ok(Ok(s)) => Ok(s),
        Ok(Err(e)) => Err(format!("{e}")),
        Err(p) => Err(format!("panic: {p}")),
    }
}
