//! Deviant reference model for C08: *value-based* resolution as the library implements it at the
//! pinned commit (the writer schema is only used to decode; the decoded value is then converted
//! to the reader schema by looking at the value alone). It exists so that a disagreement between
//! the library and the specification (refresolve) can be re-judged: only when the library's output
//! equals this model's output exactly is it reported as the recorded finding; the rules that fired
//! are noted. It uses the library's `Value` type as plain data and never calls library logic.

use crate::ast::{Env, Lt, F, S};
use apache_avro::types::Value;
use apache_avro::{Decimal, Duration, Uuid};
use serde_json::Value as J;
use std::collections::HashMap;

/// `.0`: every rule of the value-based resolution that fired; `.1`: the rule at which it gave up (if any).
pub struct Notes(pub Vec<&'static str>, pub Vec<&'static str>);

/// Recorded when bytes that are not UTF-8 meet a `string` reader: resolution has no result, which is
/// right for C08; C09 uses the note because `can_read` nevertheless answers Full for bytes -> string.
pub const NON_UTF8: &str = "bytes-that-are-not-utf8-read-as-string";
/// Likewise for a plain string / bytes value that is not the text / the 16 bytes of a UUID.
pub const NOT_A_UUID: &str = "plain-value-that-is-not-a-uuid-read-as-uuid";
pub const NOT_A_BIG_DECIMAL: &str = "plain-bytes-read-as-big-decimal";

impl Notes {
    pub fn new() -> Notes {
        Notes(vec![], vec![])
    }
    fn add(&mut self, n: &'static str) {
        if !self.0.contains(&n) {
            self.0.push(n);
        }
    }
    fn fatal(&mut self, n: &'static str) {
        self.add(n);
        if !self.1.contains(&n) {
            self.1.push(n);
        }
    }
}

#[derive(Clone, Copy, PartialEq, Eq, Debug)]
enum K {
    Null,
    Boolean,
    Int,
    Long,
    Float,
    Double,
    Bytes,
    String,
    Array,
    Map,
    Union,
    Record,
    Enum,
    Fixed,
    BigDecimal,
    Ref,
}

fn base_kind(s: &S) -> K {
    match s {
        S::Null => K::Null,
        S::Boolean => K::Boolean,
        S::Int => K::Int,
        S::Long => K::Long,
        S::Float => K::Float,
        S::Double => K::Double,
        S::Bytes => K::Bytes,
        S::String => K::String,
        S::Array(_) => K::Array,
        S::Map(_) => K::Map,
        S::Union(_) => K::Union,
        S::Record { .. } => K::Record,
        S::Enum { .. } => K::Enum,
        S::Fixed { .. } => K::Fixed,
        S::Ref(_) => K::Ref,
        S::Logical(lt, b) => match lt {
            Lt::Date | Lt::TimeMillis => K::Int,
            Lt::TimeMicros | Lt::TsMillis | Lt::TsMicros | Lt::TsNanos | Lt::LtsMillis | Lt::LtsMicros | Lt::LtsNanos => K::Long,
            Lt::BigDecimal => K::BigDecimal,
            Lt::Uuid | Lt::Decimal { .. } | Lt::Duration => base_kind(b),
        },
    }
}

fn is_named(s: &S) -> bool {
    match s {
        S::Record { .. } | S::Enum { .. } | S::Fixed { .. } | S::Ref(_) => true,
        S::Logical(_, b) => matches!(**b, S::Fixed { .. }),
        _ => false,
    }
}

/// (unnamed kind, named kind) a value can be matched as.
fn value_kinds(v: &Value) -> (Option<K>, Option<K>) {
    match v {
        Value::Null => (Some(K::Null), None),
        Value::Boolean(_) => (Some(K::Boolean), None),
        Value::Int(_) | Value::Date(_) | Value::TimeMillis(_) => (Some(K::Int), None),
        Value::Long(_) | Value::TimeMicros(_) | Value::TimestampMillis(_) | Value::TimestampMicros(_) | Value::TimestampNanos(_) | Value::LocalTimestampMillis(_) | Value::LocalTimestampMicros(_) | Value::LocalTimestampNanos(_) => (Some(K::Long), None),
        Value::Float(_) => (Some(K::Float), None),
        Value::Double(_) => (Some(K::Double), None),
        Value::Bytes(_) => (Some(K::Bytes), None),
        Value::String(_) => (Some(K::String), None),
        Value::Array(_) => (Some(K::Array), None),
        Value::Map(_) => (Some(K::Map), Some(K::Record)),
        Value::Union(..) => (Some(K::Union), None),
        Value::Record(_) => (None, Some(K::Record)),
        Value::Enum(..) => (None, Some(K::Enum)),
        Value::Fixed(..) => (None, Some(K::Fixed)),
        Value::Decimal(_) => (Some(K::Bytes), Some(K::Fixed)),
        Value::BigDecimal(_) => (Some(K::Bytes), None),
        Value::Uuid(_) => (Some(K::String), Some(K::Fixed)),
        Value::Duration(_) => (None, Some(K::Fixed)),
    }
}

fn max_prec_for_len(len: usize) -> usize {
    (2.0_f64.powi(8 * len as i32 - 1) - 1.0).log10().floor() as usize
}

fn json_to_value(j: &J) -> Result<Value, ()> {
    Ok(match j {
        J::Null => Value::Null,
        J::Bool(b) => Value::Boolean(*b),
        J::Number(n) if n.is_i64() => {
            let n = n.as_i64().unwrap();
            if n >= i32::MIN as i64 && n <= i32::MAX as i64 { Value::Int(n as i32) } else { Value::Long(n) }
        }
        J::Number(n) if n.is_f64() => Value::Double(n.as_f64().unwrap()),
        J::Number(_) => return Err(()),
        J::String(s) => Value::String(s.clone()),
        J::Array(a) => Value::Array(a.iter().map(json_to_value).collect::<Result<_, _>>()?),
        J::Object(o) => Value::Map(o.iter().map(|(k, v)| json_to_value(v).map(|x| (k.clone(), x))).collect::<Result<HashMap<_, _>, _>>()?),
    })
}

fn special_float(s: &str) -> Option<f32> {
    match s {
        "NaN" => Some(f32::NAN),
        "INF" | "Infinity" => Some(f32::INFINITY),
        "-INF" | "-Infinity" => Some(f32::NEG_INFINITY),
        _ => None,
    }
}

pub fn resolve(mut v: Value, s: &S, env: &Env, notes: &mut Notes) -> Result<Value, ()> {
    if matches!(v, Value::Union(..)) && !matches!(s.deref(env), S::Union(_)) {
        if let Value::Union(_, b) = v {
            v = *b;
        }
    }
    let s = s.deref(env);
    match s {
        S::Ref(_) => unreachable!(),
        S::Null => match v {
            Value::Null => Ok(Value::Null),
            _ => Err(()),
        },
        S::Boolean => match v {
            Value::Boolean(b) => Ok(Value::Boolean(b)),
            _ => Err(()),
        },
        S::Int => match v {
            Value::Int(n) => Ok(Value::Int(n)),
            Value::Long(n) => {
                notes.add("long-narrowed-to-int-when-it-fits");
                i32::try_from(n).map(Value::Int).map_err(|_| ())
            }
            other => {
                logical_note(&other, notes);
                Err(())
            }
        },
        S::Long => match v {
            Value::Int(n) => Ok(Value::Long(n as i64)),
            Value::Long(n) => Ok(Value::Long(n)),
            other => {
                logical_note(&other, notes);
                Err(())
            }
        },
        S::Float => match v {
            Value::Int(n) => Ok(Value::Float(n as f32)),
            Value::Long(n) => Ok(Value::Float(n as f32)),
            Value::Float(x) => Ok(Value::Float(x)),
            Value::Double(x) => {
                notes.add("double-narrowed-to-float");
                Ok(Value::Float(x as f32))
            }
            Value::String(ref x) => special_float(x).map(Value::Float).ok_or(()),
            other => {
                logical_note(&other, notes);
                Err(())
            }
        },
        S::Double => match v {
            Value::Int(n) => Ok(Value::Double(n as f64)),
            Value::Long(n) => Ok(Value::Double(n as f64)),
            Value::Float(x) => Ok(Value::Double(x as f64)),
            Value::Double(x) => Ok(Value::Double(x)),
            Value::String(ref x) => special_float(x).map(|f| Value::Double(f as f64)).ok_or(()),
            other => {
                logical_note(&other, notes);
                Err(())
            }
        },
        S::Bytes => match v {
            Value::Bytes(b) => Ok(Value::Bytes(b)),
            Value::String(x) => Ok(Value::Bytes(x.into_bytes())),
            Value::Array(items) => {
                notes.add("array-of-small-ints-accepted-by-bytes-reader");
                let mut out = vec![];
                for it in items {
                    match resolve(it, &S::Int, env, notes)? {
                        Value::Int(n) if (0..=255).contains(&n) => out.push(n as u8),
                        _ => return Err(()),
                    }
                }
                Ok(Value::Bytes(out))
            }
            other => {
                logical_note(&other, notes);
                Err(())
            }
        },
        S::String => match v {
            Value::String(x) => Ok(Value::String(x)),
            Value::Bytes(b) => String::from_utf8(b).map(Value::String).map_err(|_| {
                // not a deviation of resolution (no string exists for these bytes); C09 reads this note
                notes.fatal(NON_UTF8);
            }),
            Value::Fixed(_, b) => {
                notes.add("fixed-accepted-by-string-reader");
                String::from_utf8(b).map(Value::String).map_err(|_| ())
            }
            other => {
                logical_note(&other, notes);
                Err(())
            }
        },
        S::Fixed { size, .. } => match v {
            Value::Fixed(n, b) => {
                notes.add("named-type-names-not-compared");
                if n == *size { Ok(Value::Fixed(n, b)) } else { Err(()) }
            }
            Value::String(x) => {
                notes.add("string-to-fixed-without-size-check");
                Ok(Value::Fixed(x.len(), x.into_bytes()))
            }
            Value::Bytes(b) => {
                if b.len() == *size {
                    notes.add("bytes-of-the-right-length-accepted-by-fixed-reader");
                    Ok(Value::Fixed(*size, b))
                } else {
                    Err(())
                }
            }
            other => {
                logical_note(&other, notes);
                Err(())
            }
        },
        S::Enum { symbols, default, .. } => {
            let sym = match v {
                Value::Enum(_, x) => x,
                Value::String(x) => x,
                _ => return Err(()),
            };
            notes.add("named-type-names-not-compared");
            if let Some(i) = symbols.iter().position(|x| *x == sym) {
                Ok(Value::Enum(i as u32, sym))
            } else if let Some(d) = default {
                symbols.iter().position(|x| x == d).map(|i| Value::Enum(i as u32, d.clone())).ok_or(())
            } else {
                Err(())
            }
        }
        S::Array(it) => match v {
            Value::Array(items) => Ok(Value::Array(items.into_iter().map(|x| resolve(x, it, env, notes)).collect::<Result<_, _>>()?)),
            _ => Err(()),
        },
        S::Map(vt) => match v {
            Value::Map(items) => Ok(Value::Map(items.into_iter().map(|(k, x)| resolve(x, vt, env, notes).map(|y| (k, y))).collect::<Result<_, _>>()?)),
            _ => Err(()),
        },
        S::Union(br) => {
            let inner = match v {
                Value::Union(_, b) => *b,
                other => other,
            };
            let (i, b) = find_branch(&inner, br, env, notes).ok_or(())?;
            Ok(Value::Union(i as u32, Box::new(resolve(inner, b, env, notes)?)))
        }
        S::Record { fields, .. } => resolve_record(v, fields, env, notes),
        S::Logical(lt, base) => match lt {
            Lt::Date => match v {
                Value::Date(d) | Value::Int(d) => Ok(Value::Date(d)),
                other => {
                    logical_note(&other, notes);
                    Err(())
                }
            },
            Lt::TimeMillis => match v {
                Value::TimeMillis(d) | Value::Int(d) => Ok(Value::TimeMillis(d)),
                other => {
                    logical_note(&other, notes);
                    Err(())
                }
            },
            Lt::TimeMicros => long_like(v, Value::TimeMicros, |x| matches!(x, Value::TimeMicros(_)), notes),
            Lt::TsMillis => long_like(v, Value::TimestampMillis, |x| matches!(x, Value::TimestampMillis(_)), notes),
            Lt::TsMicros => long_like(v, Value::TimestampMicros, |x| matches!(x, Value::TimestampMicros(_)), notes),
            Lt::TsNanos => long_like(v, Value::TimestampNanos, |x| matches!(x, Value::TimestampNanos(_)), notes),
            Lt::LtsMillis => long_like(v, Value::LocalTimestampMillis, |x| matches!(x, Value::LocalTimestampMillis(_)), notes),
            Lt::LtsMicros => long_like(v, Value::LocalTimestampMicros, |x| matches!(x, Value::LocalTimestampMicros(_)), notes),
            Lt::LtsNanos => long_like(v, Value::LocalTimestampNanos, |x| matches!(x, Value::LocalTimestampNanos(_)), notes),
            Lt::Decimal { precision, scale } => {
                if scale > precision {
                    return Err(());
                }
                if let S::Fixed { size, .. } = &**base {
                    if (max_prec_for_len(*size) as u64) < *precision {
                        return Err(());
                    }
                }
                match v {
                    // (repaired in the library by c947c76: no comparison of byte length and precision)
                    Value::Decimal(d) => {
                        if let S::Fixed { size, .. } = &**base {
                            // the value keeps the width it was written with; the reader's fixed size is not compared
                            if <Vec<u8>>::try_from(&d).map(|b| b.len()).ok() != Some(*size) {
                                notes.add("decimal-on-fixed-size-not-compared");
                            }
                        }
                        Ok(Value::Decimal(d))
                    }
                    Value::Fixed(_, b) => {
                        match &**base {
                            S::Fixed { size, .. } if *size == b.len() => {}
                            _ => notes.add("fixed-or-bytes-accepted-by-decimal-reader-whatever-its-underlying-type"),
                        }
                        Ok(Value::Decimal(Decimal::from(b)))
                    }
                    Value::Bytes(b) => {
                        if !matches!(**base, S::Bytes) {
                            notes.add("fixed-or-bytes-accepted-by-decimal-reader-whatever-its-underlying-type");
                        }
                        Ok(Value::Decimal(Decimal::from(b)))
                    }
                    Value::String(x) => {
                        // a string is taken for a JSON default (code point = byte) even when it was written as
                        // a string, whose bytes are its UTF-8 encoding
                        if !x.is_ascii() {
                            notes.add("string-read-as-decimal-by-code-points");
                        }
                        let mut b = vec![];
                        for c in x.chars() {
                            if c as u32 > 0xff {
                                return Err(());
                            }
                            b.push(c as u32 as u8);
                        }
                        Ok(Value::Decimal(Decimal::from(b)))
                    }
                    other => {
                        logical_note(&other, notes);
                        Err(())
                    }
                }
            }
            Lt::BigDecimal => match v {
                Value::BigDecimal(b) => Ok(Value::BigDecimal(b)),
                Value::Bytes(_) => {
                    // the payload format of big-decimal is the library's own; plain bytes are not one in
                    // general (C08 gives no verdict on these pairs, C09 reads this note)
                    notes.fatal(NOT_A_BIG_DECIMAL);
                    Err(())
                }
                other => {
                    if matches!(other, Value::String(_) | Value::Fixed(..)) {
                        notes.fatal(NOT_A_BIG_DECIMAL);
                    }
                    logical_note(&other, notes);
                    Err(())
                }
            },
            Lt::Duration => match v {
                Value::Duration(d) => Ok(Value::Duration(d)),
                Value::Fixed(12, b) => Ok(Value::Duration(Duration::from(<[u8; 12]>::try_from(b.as_slice()).map_err(|_| ())?))),
                other => {
                    logical_note(&other, notes);
                    Err(())
                }
            },
            Lt::Uuid => match (v, &**base) {
                (Value::Uuid(u), _) => Ok(Value::Uuid(u)),
                (Value::String(x), S::String) => Uuid::parse_str(&x).map(Value::Uuid).map_err(|_| notes.fatal(NOT_A_UUID)),
                (Value::Bytes(b), S::Bytes) => Uuid::from_slice(&b).map(Value::Uuid).map_err(|_| notes.fatal(NOT_A_UUID)),
                (Value::Fixed(16, b), S::Fixed { .. }) => Uuid::from_slice(&b).map(Value::Uuid).map_err(|_| ()),
                (Value::String(x), S::Fixed { .. }) => {
                    if x.len() != 16 {
                        return Err(());
                    }
                    Uuid::from_slice(x.as_bytes()).map(Value::Uuid).map_err(|_| ())
                }
                (other, _) => {
                    if matches!(other, Value::String(_) | Value::Bytes(_) | Value::Fixed(..)) {
                        // a plain value of another underlying type than the reader's uuid: no rule at all
                        notes.fatal(NOT_A_UUID);
                    }
                    logical_note(&other, notes);
                    Err(())
                }
            },
        },
    }
}

/// A value of a logical type meets a reader of the plain underlying type: the library has no rule for it.
fn logical_note(v: &Value, notes: &mut Notes) {
    if matches!(
        v,
        Value::Date(_)
            | Value::TimeMillis(_)
            | Value::TimeMicros(_)
            | Value::TimestampMillis(_)
            | Value::TimestampMicros(_)
            | Value::TimestampNanos(_)
            | Value::LocalTimestampMillis(_)
            | Value::LocalTimestampMicros(_)
            | Value::LocalTimestampNanos(_)
            | Value::Decimal(_)
            | Value::BigDecimal(_)
            | Value::Uuid(_)
            | Value::Duration(_)
    ) {
        notes.fatal("logical-type-value-not-accepted-by-reader-of-the-underlying-type");
    }
}

fn long_like(v: Value, mk: fn(i64) -> Value, own: fn(&Value) -> bool, notes: &mut Notes) -> Result<Value, ()> {
    if own(&v) {
        return Ok(v);
    }
    match v {
        Value::Long(n) => Ok(mk(n)),
        Value::Int(n) => Ok(mk(n as i64)),
        other => {
            logical_note(&other, notes);
            Err(())
        }
    }
}

fn resolve_record(v: Value, fields: &[F], env: &Env, notes: &mut Notes) -> Result<Value, ()> {
    let mut items: HashMap<String, Value> = match v {
        Value::Map(m) => m,
        Value::Record(f) => f.into_iter().collect(),
        _ => return Err(()),
    };
    notes.add("named-type-names-not-compared");
    let mut out = vec![];
    for f in fields {
        // (reader field aliases are used since the library's repair of resolve_record)
        let written = items.remove(&f.name).or_else(|| f.aliases.iter().find_map(|a| items.remove(a)));
        let value = match written {
            Some(x) => x,
            None => {
                match &f.default {
                    None => return Err(()),
                    Some(d) => {
                        notes.add("defaults-converted-from-json-by-value");
                        let converted = (|| {
                            Ok(match f.ty.deref(env) {
                                S::Enum { .. } => resolve(json_to_value(d)?, &f.ty, env, notes)?,
                                // (since the library's repair: the branches are tried in order)
                                S::Union(br) => match br[0].deref(env) {
                                    S::Null if d.is_null() => Value::Union(0, Box::new(Value::Null)),
                                    _ => {
                                        let dv = json_to_value(d)?;
                                        let mut hit = None;
                                        for (i, b) in br.iter().enumerate() {
                                            let mut scratch = Notes::new();
                                            if let Ok(x) = resolve(dv.clone(), b, env, &mut scratch) {
                                                for n in scratch.0 {
                                                    notes.add(n);
                                                }
                                                hit = Some(Value::Union(i as u32, Box::new(x)));
                                                break;
                                            }
                                        }
                                        hit.ok_or(())?
                                    }
                                },
                                _ => json_to_value(d)?,
                            })
                        })();
                        match converted {
                            Ok(x) => x,
                            Err(()) => {
                                notes.fatal("defaults-converted-from-json-by-value");
                                return Err(());
                            }
                        }
                    }
                }
            }
        };
        out.push((f.name.clone(), resolve(value, &f.ty, env, notes)?));
    }
    Ok(Value::Record(out))
}

/// The library's `find_schema_with_known_schemata`, by value kind.
fn find_branch<'a>(v: &Value, br: &'a [S], env: &Env, notes: &mut Notes) -> Option<(usize, &'a S)> {
    let (unnamed, named) = value_kinds(v);
    // index of the unnamed branch of that base kind (first one; the parser forbids duplicates)
    let un = unnamed.and_then(|k| br.iter().position(|b| !is_named(b) && base_kind(b) == k)).and_then(|i| {
        let b = &br[i];
        if matches!(base_kind(b), K::Map | K::Array) {
            let mut scratch = Notes::new();
            resolve(v.clone(), b, env, &mut scratch).ok().map(|_| i)
        } else {
            Some(i)
        }
    });
    let na = named.and_then(|k| {
        (0..br.len()).filter(|&i| is_named(&br[i])).filter(|&i| {
            let bk = base_kind(&br[i]);
            bk == k || bk == K::Ref
        }).find(|&i| {
            let mut scratch = Notes::new();
            resolve(v.clone(), &br[i], env, &mut scratch).is_ok()
        })
    });
    notes.add("reader-union-branch-chosen-from-the-value-not-the-writer-schema");
    let pick = match (un, na) {
        (Some(u), Some(n)) => {
            if u < n { Some(u) } else { Some(n) }
        }
        (Some(u), None) => Some(u),
        (None, Some(n)) => Some(n),
        (None, None) => {
            let mut inner: Vec<&'static str> = vec![];
            let found = (0..br.len()).find(|&i| {
                let mut scratch = Notes::new();
                let ok = resolve(v.clone(), &br[i], env, &mut scratch).is_ok();
                inner.extend(scratch.1);
                ok
            });
            if found.is_none() {
                // the cause lies inside a branch when one was named there, else in the selection itself
                for n in inner {
                    notes.fatal(n);
                }
            }
            found
        }
    };
    if pick.is_none() && notes.1.is_empty() {
        notes.fatal("reader-union-branch-chosen-from-the-value-not-the-writer-schema");
    }
    pick.map(|i| (i, &br[i]))
}
