//! Independent object-container-file model, written from the specification: layout parser
//! (magic, metadata map<bytes>, sync marker, blocks of count/size/payload/marker) and a writer
//! that can emit every block partition. Payload (de)compression is delegated to callbacks so the
//! codec oracle (python zlib/bz2/lzma, refsnappy) stays outside this module. Never calls the library.

use crate::refbin::{put_long, Cur, DecErr};

pub const MAGIC: [u8; 4] = [b'O', b'b', b'j', 1];

#[derive(Debug, Clone)]
pub struct Block {
    pub start: usize,
    /// offset just past the block's trailing marker
    pub end: usize,
    pub count: i64,
    pub payload: (usize, usize),
    pub marker_at: usize,
}

#[derive(Debug, Clone)]
pub struct Layout {
    /// metadata entries in file order
    pub meta: Vec<(String, Vec<u8>)>,
    pub marker: [u8; 16],
    pub header_marker_at: usize,
    pub header_end: usize,
    pub blocks: Vec<Block>,
}

/// Parse the container layout strictly. Does not interpret payloads.
pub fn parse(bytes: &[u8]) -> Result<Layout, String> {
    if bytes.len() < 4 || bytes[..4] != MAGIC {
        return Err("bad magic".into());
    }
    let mut c = Cur::new(bytes);
    c.pos = 4;
    let e = |x: DecErr| format!("{x:?}");
    let mut meta = vec![];
    loop {
        let mut n = c.long().map_err(e)?;
        if n == 0 {
            break;
        }
        if n < 0 {
            let _size = c.long().map_err(e)?;
            n = -n;
        }
        for _ in 0..n {
            let klen = c.long().map_err(e)?;
            if klen < 0 || c.b.len() - c.pos < klen as usize {
                return Err("meta key length".into());
            }
            let k = String::from_utf8(bytes[c.pos..c.pos + klen as usize].to_vec()).map_err(|_| "meta key utf8")?;
            c.pos += klen as usize;
            let vlen = c.long().map_err(e)?;
            if vlen < 0 || c.b.len() - c.pos < vlen as usize {
                return Err("meta value length".into());
            }
            let v = bytes[c.pos..c.pos + vlen as usize].to_vec();
            c.pos += vlen as usize;
            meta.push((k, v));
        }
    }
    if bytes.len() - c.pos < 16 {
        return Err("header marker cut".into());
    }
    let header_marker_at = c.pos;
    let marker: [u8; 16] = bytes[c.pos..c.pos + 16].try_into().unwrap();
    c.pos += 16;
    let header_end = c.pos;
    let mut blocks = vec![];
    while c.pos < bytes.len() {
        let start = c.pos;
        let count = c.long().map_err(e)?;
        let size = c.long().map_err(e)?;
        if count < 0 || size < 0 || bytes.len() - c.pos < size as usize + 16 {
            return Err(format!("block at {start}: count {count} size {size} does not fit"));
        }
        let payload = (c.pos, c.pos + size as usize);
        c.pos += size as usize;
        let marker_at = c.pos;
        if bytes[c.pos..c.pos + 16] != marker {
            return Err(format!("block at {start}: marker mismatch"));
        }
        c.pos += 16;
        blocks.push(Block { start, end: c.pos, count, payload, marker_at });
    }
    Ok(Layout { meta, marker, header_marker_at, header_end, blocks })
}

fn put_bytes(b: &[u8], out: &mut Vec<u8>) {
    put_long(b.len() as i64, out);
    out.extend_from_slice(b);
}

/// How the metadata map is laid out.
#[derive(Clone, Copy, Debug, PartialEq)]
pub enum MetaLayout {
    OneBlock,
    OnePerBlock,
    NegativeCounts,
}

/// Write a header. `meta` in the order to be written.
pub fn write_header(meta: &[(String, Vec<u8>)], layout: MetaLayout, marker: &[u8; 16]) -> Vec<u8> {
    let mut out = MAGIC.to_vec();
    let entry = |k: &str, v: &[u8]| {
        let mut e = vec![];
        put_bytes(k.as_bytes(), &mut e);
        put_bytes(v, &mut e);
        e
    };
    match layout {
        MetaLayout::OneBlock => {
            if !meta.is_empty() {
                put_long(meta.len() as i64, &mut out);
                for (k, v) in meta {
                    out.extend(entry(k, v));
                }
            }
        }
        MetaLayout::OnePerBlock => {
            for (k, v) in meta {
                put_long(1, &mut out);
                out.extend(entry(k, v));
            }
        }
        MetaLayout::NegativeCounts => {
            if !meta.is_empty() {
                let body: Vec<u8> = meta.iter().flat_map(|(k, v)| entry(k, v)).collect();
                put_long(-(meta.len() as i64), &mut out);
                put_long(body.len() as i64, &mut out);
                out.extend(body);
            }
        }
    }
    out.push(0);
    out.extend_from_slice(marker);
    out
}

/// Append one block: `count` objects whose (already compressed) payload is `payload`.
pub fn write_block(count: usize, payload: &[u8], marker: &[u8; 16], out: &mut Vec<u8>) {
    put_long(count as i64, out);
    put_long(payload.len() as i64, out);
    out.extend_from_slice(payload);
    out.extend_from_slice(marker);
}

/// All ways to split n items into consecutive non-empty blocks (as lists of block lengths).
pub fn partitions(n: usize) -> Vec<Vec<usize>> {
    if n == 0 {
        return vec![vec![]];
    }
    let mut out = vec![];
    for mask in 0..(1u32 << (n - 1)) {
        let mut lens = vec![];
        let mut cur = 1;
        for i in 0..n - 1 {
            if mask & (1 << i) != 0 {
                lens.push(cur);
                cur = 1;
            } else {
                cur += 1;
            }
        }
        lens.push(cur);
        out.push(lens);
    }
    out
}
