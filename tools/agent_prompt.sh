#!/bin/bash
# VARIANTS: see below
# usage: agent_prompt.sh <ID>  -> prints the prompt for a seeded-change sub-agent (property text only)
id=$1
# optional: two variant letters (default a b), e.g. agent_prompt.sh C03 c d
x=${2:-a}; y=${3:-b}
# optional 4th argument: an extra generic hint line (nothing from /verif)
HINT=${4:-}
dir=/tmp/wt/$id
prop=$(jq -r --arg id "$id" 'select(.id==$id) | "Title: \(.title)\n\nStatement: \(.statement)\n\nQuantified over: \(.quantifier.text)"' /verif/properties.jsonl)
cat <<EOT
You are working in a scratch git worktree of the apache/avro-rs Rust repository (the Apache Avro Rust SDK) at $dir. It is already created. Work ONLY inside $dir. Never touch /repo, and never read or touch /verif. There is no network; always pass --offline to cargo (CARGO_NET_OFFLINE=true), and use at most -j 4 for cargo builds because the machine is shared.

Here is a semantic property that the library is supposed to satisfy:

$prop

Your task: produce TWO independent, realistic changes (call them "$x" and "$y") to the library source code (under avro/src or avro_derive/src; NOT to tests) each of which BREAKS this property while
 (1) the workspace still compiles,
 (2) the existing test suite still passes completely: run \`cd $dir && CARGO_NET_OFFLINE=true cargo test --workspace --offline -j 4 2>&1 | grep -E "^test result|FAILED|failed|error" \` and confirm there are no failures (doc tests included),
 (3) the breakage needs something SPECIFIC to manifest - a particular multi-step sequence of operations, a fault or short write at a particular point, an unusual input value or schema shape, a boundary value, or two cooperating code sites that each look fine alone - NOT something ordinary use would expose at once. It should look like a plausible refactoring / optimisation / bug-fix mistake a maintainer could make, not sabotage.
The two changes should touch different mechanisms/code sites. $HINT

For each change X in {$x,$y} provide in $dir/SEEDED/X/:
  - patch.diff : \`git diff\` of the library source change only (must apply to a clean checkout with \`git apply\`)
  - demo.rs    : a standalone Rust integration test file (to be dropped into avro/tests/demo_seeded.rs; it may use the features/dev-dependencies the avro crate already has) that FAILS with the change applied and PASSES on the unchanged tree. Verify both yourself.
  - notes.md   : which part of the property it breaks, exactly what it needs in order to manifest, the commands you ran and their results (test suite pass with change; demo fail with change; demo pass without change).
Make sure that at the end the worktree's tracked files are back to the unchanged state (git checkout -- . ; remove the demo test from avro/tests), leaving only the untracked SEEDED/ directory. Do not commit anything.

Start by reading the relevant source under $dir/avro/src to choose good sites. Final answer: a brief summary of the two changes (files/functions touched, what manifests them).
EOT
