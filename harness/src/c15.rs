//! C15: every codec round-trips every payload at every setting and interoperates with reference codecs.

use crate::ev::{self, guarded, hex, Report, Stats, Tier};
use crate::oracle::{self, CodecOracle};
use crate::pcf::crc32;
use apache_avro::{Bzip2Settings, Codec, DeflateSettings, XzSettings, ZstandardSettings};
use miniz_oxide::deflate::CompressionLevel;
use rayon::prelude::*;
use serde_json::{json, Value as J};
use std::time::Instant;

#[derive(Clone, Debug)]
pub struct Setting {
    pub codec_name: &'static str,
    pub level: i32,
    pub codec: Codec,
}

pub fn settings_all() -> Vec<Setting> {
    let mut out = vec![Setting { codec_name: "null", level: 0, codec: Codec::Null }, Setting { codec_name: "snappy", level: 0, codec: Codec::Snappy }];
    for (l, lv) in [
        (0, CompressionLevel::NoCompression),
        (1, CompressionLevel::BestSpeed),
        (6, CompressionLevel::DefaultLevel),
        (9, CompressionLevel::BestCompression),
        (10, CompressionLevel::UberCompression),
        (-1, CompressionLevel::DefaultCompression),
    ] {
        out.push(Setting { codec_name: "deflate", level: l, codec: Codec::Deflate(DeflateSettings::new(lv)) });
    }
    for l in 0..=255u8 {
        out.push(Setting { codec_name: "bzip2", level: l as i32, codec: Codec::Bzip2(Bzip2Settings::new(l)) });
        out.push(Setting { codec_name: "xz", level: l as i32, codec: Codec::Xz(XzSettings::new(l)) });
        out.push(Setting { codec_name: "zstandard", level: l as i32, codec: Codec::Zstandard(ZstandardSettings::new(l)) });
    }
    out
}

pub fn settings_default() -> Vec<Setting> {
    vec![
        Setting { codec_name: "null", level: 0, codec: Codec::Null },
        Setting { codec_name: "snappy", level: 0, codec: Codec::Snappy },
        Setting { codec_name: "deflate", level: -1, codec: Codec::Deflate(DeflateSettings::default()) },
        Setting { codec_name: "deflate", level: 0, codec: Codec::Deflate(DeflateSettings::new(CompressionLevel::NoCompression)) },
        Setting { codec_name: "bzip2", level: 1, codec: Codec::Bzip2(Bzip2Settings::new(1)) },
        Setting { codec_name: "bzip2", level: 9, codec: Codec::Bzip2(Bzip2Settings::default()) },
        Setting { codec_name: "xz", level: 0, codec: Codec::Xz(XzSettings::new(0)) },
        Setting { codec_name: "xz", level: 6, codec: Codec::Xz(XzSettings::new(6)) },
        Setting { codec_name: "zstandard", level: 0, codec: Codec::Zstandard(ZstandardSettings::default()) },
        Setting { codec_name: "zstandard", level: 19, codec: Codec::Zstandard(ZstandardSettings::new(19)) },
    ]
}

fn lcg(n: usize) -> Vec<u8> {
    let mut x: u64 = 0x2545F4914F6CDD1D;
    (0..n)
        .map(|_| {
            x = x.wrapping_mul(6364136223846793005).wrapping_add(1442695040888963407);
            (x >> 33) as u8
        })
        .collect()
}

pub fn small_payloads(n: usize) -> Vec<Vec<u8>> {
    let alphabet = [0x00u8, 0x01, 0xff, b'a'];
    let mut out: Vec<Vec<u8>> = vec![vec![]];
    let mut layer: Vec<Vec<u8>> = vec![vec![]];
    for _ in 0..n {
        let mut next = vec![];
        for p in &layer {
            for b in alphabet {
                let mut x = p.clone();
                x.push(b);
                next.push(x);
            }
        }
        out.extend(next.iter().cloned());
        layer = next;
    }
    out
}

pub fn sized_payloads(tier: Tier) -> Vec<(String, Vec<u8>)> {
    let mut sizes: Vec<usize> = vec![0, 1, 2, 15, 16, 17, 255, 256, 257, 4095, 4096, 4097, 32767, 32768, 32769, 65535, 65536, 65537, 100_000];
    if tier == Tier::Thorough {
        sizes.push((1 << 20) + 1);
        sizes.push(300_001);
    } else {
        sizes.push(300_001);
    }
    let mut out = vec![];
    for n in sizes {
        out.push((format!("zeros/{n}"), vec![0u8; n]));
        out.push((format!("abc/{n}"), b"abc".iter().cycle().take(n).cloned().collect()));
        out.push((format!("ramp/{n}"), (0..n).map(|i| (i % 251) as u8).collect()));
        out.push((format!("noise/{n}"), lcg(n)));
    }
    out
}

fn lib_compress(c: Codec, data: &[u8]) -> Result<Vec<u8>, String> {
    let mut v = data.to_vec();
    match guarded(|| c.compress(&mut v)) {
        Ok(Ok(())) => Ok(v),
        Ok(Err(e)) => Err(format!("error: {e}")),
        Err(p) => Err(format!("panic: {p}")),
    }
}

fn lib_decompress(c: Codec, data: &[u8]) -> Result<Vec<u8>, String> {
    let mut v = data.to_vec();
    match guarded(|| c.decompress(&mut v)) {
        Ok(Ok(())) => Ok(v),
        Ok(Err(e)) => Err(format!("error: {e}")),
        Err(p) => Err(format!("panic: {p}")),
    }
}

/// Judge one (setting, payload). `interop`: also ask the reference codec.
fn judge(s: &Setting, label: &str, x: &[u8], interop: Option<&mut CodecOracle>, ord: u64, st: &mut Stats) {
    st.states += 1;
    st.evaluations += 1;
    st.transitions += 2;
    let case = |what: String| json!({"codec": s.codec_name, "level": s.level, "payload": label, "payload_len": x.len(), "payload_head": hex(&x[..x.len().min(16)]), "observed": what});
    let replay = json!({"codec": s.codec_name, "level": s.level, "payload": label});
    let out_of_range = match s.codec_name {
        "bzip2" => !(1..=9).contains(&s.level),
        "xz" => !(0..=9).contains(&s.level),
        "zstandard" => !(0..=22).contains(&s.level),
        _ => false,
    };
    let comp = match lib_compress(s.codec, x) {
        Ok(c) => c,
        Err(e) => {
            if e.starts_with("panic") {
                st.outcome("violation:compress-panicked");
                st.violate(ord, "compress panicked", case(e), replay);
            } else if out_of_range {
                st.outcome("out-of-range-level-rejected");
            } else {
                st.outcome("violation:compress-failed");
                st.violate(ord, "compress failed at a valid setting", case(e), replay);
            }
            return;
        }
    };
    match lib_decompress(s.codec, &comp) {
        Ok(back) if back == x => {}
        other => {
            st.outcome("violation:round-trip");
            st.violate(ord, "decompress(compress(x)) != x", case(format!("compressed {} bytes; decompress gave {}", comp.len(), match &other { Ok(b) => format!("{} bytes (head {})", b.len(), hex(&b[..b.len().min(16)])), Err(e) => e.clone() })), replay);
            return;
        }
    }
    // format checks
    if s.codec_name == "snappy" {
        let ok = comp.len() >= 4 && comp[comp.len() - 4..] == crc32(x).to_be_bytes() && oracle::snappy_decode(&comp[..comp.len() - 4]).is_ok_and(|d| d == x);
        if !ok {
            st.outcome("violation:snappy-format");
            st.violate(ord, "snappy block is not a raw snappy stream followed by the big-endian CRC-32 of the data", case(format!("block {}", ev::trunc(&hex(&comp), 200))), replay);
            return;
        }
        // every single-bit corruption of the checksum is rejected
        for bit in 0..32 {
            let mut bad = comp.clone();
            let n = bad.len();
            bad[n - 4 + bit / 8] ^= 1 << (bit % 8);
            st.transitions += 1;
            if lib_decompress(s.codec, &bad).is_ok() {
                st.outcome("violation:snappy-crc");
                st.violate(ord, "snappy block with a corrupted checksum is accepted", case(format!("bit {bit} of the CRC flipped")), replay);
                return;
            }
        }
        // the library reads the reference encoder's stream
        let mut refblock = oracle::snappy_encode_literals(x);
        refblock.extend_from_slice(&crc32(x).to_be_bytes());
        st.transitions += 1;
        if !lib_decompress(s.codec, &refblock).is_ok_and(|d| d == x) {
            st.outcome("violation:snappy-interop");
            st.violate(ord, "library does not read a reference snappy block", case(ev::trunc(&hex(&refblock), 200)), replay);
            return;
        }
    }
    if let Some(or) = interop {
        if matches!(s.codec_name, "deflate" | "bzip2" | "xz" | "zstandard") {
            st.transitions += 2;
            // reference decompressor reads the library's output
            match or.call('d', s.codec_name, 0, &comp) {
                Ok(d) if d == x => {}
                Err(e) if e.contains("NOZSTD") => {}
                other => {
                    st.outcome("violation:reference-cannot-read");
                    st.violate(ord, "reference decompressor does not accept the library's output", case(format!("reference: {}", match other { Ok(d) => format!("{} bytes", d.len()), Err(e) => e })), replay);
                    return;
                }
            }
            // the library reads the reference compressor's output (at this level, clamped by the reference)
            match or.call('c', s.codec_name, s.level, x) {
                Ok(rc) => {
                    if !lib_decompress(s.codec, &rc).is_ok_and(|d| d == x) {
                        st.outcome("violation:library-cannot-read-reference");
                        st.violate(ord, "library does not decompress the reference compressor's output", case(format!("reference stream {}", ev::trunc(&hex(&rc), 200))), replay);
                        return;
                    }
                }
                Err(e) if e.contains("NOZSTD") => {}
                Err(e) => ev::machinery(&format!("codec oracle failed to compress: {e}")),
            }
            if s.codec_name == "deflate" && comp.len() >= 2 && (comp[0] == 0x78 && (comp[1] == 0x01 || comp[1] == 0x9c || comp[1] == 0xda)) && or.call('d', "deflate", 0, &comp).is_err() {
                st.outcome("violation:zlib-header");
                st.violate(ord, "deflate output carries a zlib header", case(hex(&comp[..2])), replay);
                return;
            }
        }
    }
    st.outcome(if out_of_range { "out-of-range-level-clamped-roundtrip" } else { "round-trip-ok" });
    st.class(format!("{}|{}|{}", s.codec_name, s.level, x.len().min(70_000)));
    if x.len() == 17 {
        st.sample(|| json!({"codec": s.codec_name, "level": s.level, "payload": label, "compressed_len": comp.len()}));
    }
}

pub fn run(tier: Tier, replay: Option<&J>) -> i32 {
    let start = Instant::now();
    oracle::self_test();
    let small = small_payloads(if tier == Tier::Quick { 5 } else { 6 });
    let sized = sized_payloads(tier);
    let all = settings_all();
    let defaults = settings_default();
    let want = |s: &Setting, label: &str| -> bool {
        match replay {
            Some(r) => r["codec"] == s.codec_name && r["level"] == s.level && r["payload"] == label,
            None => true,
        }
    };
    // work items: (setting, label, payload, interop?)
    let mut items: Vec<(Setting, String, Vec<u8>, bool)> = vec![];
    // (1) exhaustive small payloads at the light default settings; the heavy ones (large encoder
    // state: bzip2 -9, xz -6, zstd -19) on every 64th (quick) / 8th (thorough) payload
    for s in &defaults {
        let heavy = (s.codec_name == "bzip2" && s.level >= 9) || (s.codec_name == "xz" && s.level >= 6) || s.level >= 19;
        let stride = if !heavy { 1 } else if tier == Tier::Quick { 256 } else { 8 };
        for (i, p) in small.iter().enumerate() {
            if i % stride != 0 {
                continue;
            }
            items.push((s.clone(), format!("small/{i}"), p.clone(), i % 64 == 0));
        }
    }
    // (2) every setting the settings types can express: in-range levels on four probes, levels the
    // codec does not define on the two tiny probes (error or clamped stream, never a panic)
    let probes: Vec<(String, Vec<u8>)> = vec![("probe/empty".into(), vec![]), ("probe/one".into(), vec![7]), ("probe/abc-257".into(), b"abc".iter().cycle().take(257).cloned().collect()), ("probe/noise-4097".into(), lcg(4097))];
    for s in &all {
        let in_range = (-1..=22).contains(&s.level);
        for (k, (l, p)) in probes.iter().enumerate() {
            if !in_range && k >= 2 {
                continue;
            }
            if !in_range && tier == Tier::Quick && s.codec_name == "zstandard" && s.level % 32 != 31 {
                // zstandard clamps to its maximum level, whose encoder state takes ~0.3 s to set up:
                // the quick tier takes every 8th of the undefined levels, thorough all of them
                continue;
            }
            items.push((s.clone(), l.clone(), p.clone(), in_range && k >= 1));
        }
    }
    // (3) sized payloads (windows / block boundaries) at the default settings, with interop
    for s in &defaults {
        let heavy = (s.codec_name == "bzip2" && s.level >= 9) || (s.codec_name == "xz" && s.level >= 6) || s.level >= 19;
        for (l, p) in &sized {
            if heavy && tier == Tier::Quick && (p.len() > 70_000 || (s.codec_name == "zstandard" && p.len() > 300 && !l.starts_with("noise"))) {
                continue;
            }
            items.push((s.clone(), l.clone(), p.clone(), p.len() <= 70_000));
        }
    }
    // (4) multi-MiB runs of one byte: the most compressible inputs there are (deflate reaches about 1030:1),
    // at every deflate level and the light default settings
    for s in &all {
        let light = s.codec_name == "deflate" || (s.codec_name == "snappy") || (s.codec_name == "zstandard" && s.level <= 3 && defaults.iter().any(|d| d.codec_name == s.codec_name && d.level == s.level));
        if !light {
            continue;
        }
        for n in [(4usize << 20) + 1, 8 << 20] {
            items.push((s.clone(), format!("zeros/{n}"), vec![0u8; n], false));
        }
    }
    let items: Vec<_> = items.into_iter().filter(|(s, l, _, _)| want(s, l)).collect();
    if std::env::var("VERIF_C15_TIMING").is_ok() {
        // diagnostic: wall time per (codec, level bucket)
        let mut acc: std::collections::BTreeMap<String, f64> = Default::default();
        for (s, l, p, _) in &items {
            let t = Instant::now();
            let mut st = Stats::default();
            judge(s, l, p, None, 0, &mut st);
            *acc.entry(format!("{}|{}|{}", s.codec_name, if s.level > 22 { 99 } else { s.level }, if l.starts_with("small") { "small" } else if l.starts_with("probe") { "probe" } else { "sized" })).or_insert(0.0) += t.elapsed().as_secs_f64();
        }
        for (k, v) in acc {
            if v > 0.2 {
                eprintln!("{v:8.2}s {k}");
            }
        }
        return 0;
    }
    thread_local! {
        static ORACLE: std::cell::RefCell<Option<CodecOracle>> = const { std::cell::RefCell::new(None) };
    }
    // heavy items are spread evenly: fine-grained work stealing, one reference process per worker thread
    let st = items
        .par_iter()
        .with_max_len(1)
        .enumerate()
        .map(|(k, (s, l, p, interop))| {
            let mut st = Stats::default();
            if *interop {
                ORACLE.with(|o| {
                    let mut o = o.borrow_mut();
                    if o.is_none() {
                        *o = Some(CodecOracle::start());
                    }
                    judge(s, l, p, o.as_mut(), k as u64, &mut st);
                });
            } else {
                judge(s, l, p, None, k as u64, &mut st);
            }
            st
        })
        .reduce(Stats::default, Stats::merge);
    let rep = Report {
        id: "C15".into(),
        tier,
        level: "model_checking",
        rule: "(1) all byte strings of length <= 5 (quick) / 6 (thorough) over {00,01,ff,'a'} at the default settings of every codec; (2) every setting the settings types can express (6 deflate levels, all 256 u8 levels of bzip2/xz/zstandard) on probe payloads: out-of-range levels must be an error or a clamped valid stream, never a panic; (3) payload sizes around codec windows/blocks {0,1,2,15-17,255-257,4095-4097,32767-32769,65535-65537,100000,300001(,2^20+1)} x {zeros, abc, ramp, incompressible noise}. Oracle: round trip; raw-deflate / bzip2 / xz / zstd streams accepted by python zlib(-15)/bz2/lzma and the zstd CLI and vice versa; snappy = independently decodable raw stream + big-endian CRC-32, all 32 single-bit checksum corruptions rejected. A class is (codec, level, payload size)".into(),
        bounds: json!({"small_payloads": small.len(), "sized_payloads": sized.len(), "settings": all.len(), "work_items": items.len()}),
        assumptions: vec!["python zlib/bz2/lzma are the reference codecs; zstandard interop uses the zstd CLI (same upstream code base, separate build); snappy is checked against the harness's own decoder written from the format description".into()],
        exhaustive: replay.is_none(),
        extra: json!({}),
    };
    ev::finish(rep, st, start)
}
