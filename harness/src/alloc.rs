//! Counting global allocator: records the largest single allocation request since the last
//! reset. A request above the hard cap is recorded in the progress file and the process exits
//! with code 77 instead of touching the memory.

use std::alloc::{GlobalAlloc, Layout, System};
use std::sync::atomic::{AtomicUsize, Ordering};

pub struct Counting;

static MAX_REQUEST: AtomicUsize = AtomicUsize::new(0);
/// 0 = no cap (normal checks); workers set it.
static HARD_CAP: AtomicUsize = AtomicUsize::new(0);

pub fn reset_max() {
    MAX_REQUEST.store(0, Ordering::Relaxed);
}

pub fn max_request() -> usize {
    MAX_REQUEST.load(Ordering::Relaxed)
}

pub fn set_hard_cap(n: usize) {
    HARD_CAP.store(n, Ordering::Relaxed);
}

#[inline]
fn note(size: usize) {
    if size > MAX_REQUEST.load(Ordering::Relaxed) {
        MAX_REQUEST.fetch_max(size, Ordering::Relaxed);
    }
    let cap = HARD_CAP.load(Ordering::Relaxed);
    if cap != 0 && size > cap {
        // the parent reads the culprit case from the progress file
        unsafe { libc::_exit(77) };
    }
}

unsafe impl GlobalAlloc for Counting {
    unsafe fn alloc(&self, layout: Layout) -> *mut u8 {
        note(layout.size());
        unsafe { System.alloc(layout) }
    }
    unsafe fn dealloc(&self, ptr: *mut u8, layout: Layout) {
        unsafe { System.dealloc(ptr, layout) }
    }
    unsafe fn alloc_zeroed(&self, layout: Layout) -> *mut u8 {
        note(layout.size());
        unsafe { System.alloc_zeroed(layout) }
    }
    unsafe fn realloc(&self, ptr: *mut u8, layout: Layout, new_size: usize) -> *mut u8 {
        note(new_size);
        unsafe { System.realloc(ptr, layout, new_size) }
    }
}
