//! C07: values accepted by validation are written readably; rejected ones write nothing.
//! Candidates = canonical values of SU x every single de-canonicalising / near-miss rewrite at
//! every node. The oracle never re-implements validation: it only relates what `validate` says
//! to what the validating write paths do.

use crate::ast::{Env, Lt, S};
use crate::c01::{lib_decode, Filter};
use crate::corpus::{self, Sc};
use crate::ev::{self, guarded, hex, Report, Stats, Tier};
use crate::refocf;
use crate::val::{self, sign_extend, to_lib, uuid_canonical_text, V};
use apache_avro::types::Value;
use apache_avro::writer::datum::GenericDatumWriter;
use apache_avro::{GenericSingleObjectWriter, Schema, Writer};
use num_bigint::BigInt;
use rayon::prelude::*;
use serde_json::{json, Value as J};
use std::collections::HashMap;
use std::time::Instant;

#[derive(Clone, Debug)]
pub struct Alt {
    pub value: Value,
    /// None = canonical; Some((rewrite name, schema kind of the rewritten node))
    pub rw: Option<(&'static str, &'static str)>,
}

fn alt(value: Value, name: &'static str, kind: &'static str) -> Alt {
    Alt { value, rw: Some((name, kind)) }
}

/// Alternatives for one value: index 0 is canonical, the others differ by exactly one rewrite.
pub fn alts(v: &V, s: &S, env: &Env) -> Vec<Alt> {
    let s = s.deref(env);
    let canon = to_lib(v, s, env);
    let kind = s.kind();
    let mut out = vec![Alt { value: canon.clone(), rw: None }];
    // rewrites at this node
    match (v, s) {
        (V::Union(i, inner), S::Union(br)) => {
            let b = &br[*i];
            let inner_canon = to_lib(inner, b, env);
            out.push(alt(inner_canon.clone(), "bare-value-in-union", b.deref(env).kind()));
            // wrong union index: same inner value under every other index
            for j in 0..br.len() + 1 {
                if j != *i {
                    out.push(alt(Value::Union(j as u32, Box::new(inner_canon.clone())), if j == br.len() { "union-index-out-of-range" } else { "wrong-union-index" }, b.deref(env).kind()));
                }
            }
            for a in alts(inner, b, env).into_iter().skip(1) {
                out.push(Alt { value: Value::Union(*i as u32, Box::new(a.value)), rw: a.rw });
            }
        }
        (V::Enum(i, ), S::Enum { symbols, .. }) => {
            out.push(alt(Value::String(symbols[*i].clone()), "string-for-enum", kind));
            out.push(alt(Value::String("ZZ_unknown".into()), "unknown-symbol-string", kind));
            out.push(alt(Value::Enum(*i as u32, "ZZ_unknown".into()), "enum-index-symbol-mismatch", kind));
            out.push(alt(Value::Enum(symbols.len() as u32 + 5, "ZZ_unknown".into()), "enum-index-out-of-range", kind));
            out.push(alt(Value::Enum(symbols.len() as u32, symbols[*i].clone()), "enum-index-out-of-range-known-symbol", kind));
            out.push(alt(Value::Int(*i as i32), "int-for-enum", kind));
        }
        (V::Int(n), _) => {
            if matches!(s, S::Logical(..)) {
                out.push(alt(Value::Int(*n), "base-int-for-logical", kind));
            } else {
                out.push(alt(Value::Date(*n), "date-for-int", kind));
            }
            out.push(alt(Value::Long(*n as i64), "long-for-int", kind));
            out.push(alt(Value::Float(*n as f32), "float-for-int", kind));
            out.push(alt(Value::String(n.to_string()), "string-for-int", kind));
        }
        (V::Long(n), _) => {
            if matches!(s, S::Logical(..)) {
                out.push(alt(Value::Long(*n), "base-long-for-logical", kind));
            } else {
                out.push(alt(Value::TimestampMillis(*n), "timestamp-for-long", kind));
            }
            if let Ok(i) = i32::try_from(*n) {
                out.push(alt(Value::Int(i), "int-for-long", kind));
            }
            out.push(alt(Value::Double(*n as f64), "double-for-long", kind));
        }
        (V::Float(b), _) => {
            let x = f32::from_bits(*b);
            out.push(alt(Value::Double(x as f64), "double-for-float", kind));
            out.push(alt(Value::Int(1), "int-for-float", kind));
        }
        (V::Double(b), _) => {
            let x = f64::from_bits(*b);
            out.push(alt(Value::Float(x as f32), "float-for-double", kind));
            out.push(alt(Value::Long(1), "long-for-double", kind));
            out.push(alt(Value::Int(1), "int-for-double", kind));
        }
        (V::Bool(b), _) => {
            out.push(alt(Value::Int(*b as i32), "int-for-boolean", kind));
        }
        (V::Null, _) => {
            out.push(alt(Value::Int(0), "int-for-null", kind));
        }
        (V::Bytes(b), _) => {
            out.push(alt(Value::Fixed(b.len(), b.clone()), "fixed-for-bytes", kind));
            out.push(alt(Value::String(String::from_utf8_lossy(b).into_owned()), "string-for-bytes", kind));
        }
        (V::Str(x), _) => {
            out.push(alt(Value::Bytes(x.as_bytes().to_vec()), "bytes-for-string", kind));
        }
        (V::Fixed(b), _) => {
            out.push(alt(Value::Bytes(b.clone()), "bytes-for-fixed", kind));
            let mut longer = b.clone();
            longer.push(0);
            out.push(alt(Value::Fixed(longer.len(), longer.clone()), "wrong-fixed-size", kind));
            out.push(alt(Value::Bytes(longer), "bytes-of-wrong-size-for-fixed", kind));
            out.push(alt(Value::Fixed(b.len() + 1, b.clone()), "fixed-declared-size-mismatch", kind));
        }
        (V::Decimal(n), S::Logical(Lt::Decimal { .. }, base)) => {
            let bytes = match &**base {
                S::Fixed { size, .. } => sign_extend(n, *size),
                _ => n.to_signed_bytes_be(),
            };
            out.push(alt(Value::Bytes(bytes.clone()), "bytes-for-decimal", if matches!(**base, S::Bytes) { "decimal-bytes" } else { "decimal-fixed" }));
            out.push(alt(Value::Fixed(bytes.len(), bytes.clone()), "fixed-for-decimal", if matches!(**base, S::Bytes) { "decimal-bytes" } else { "decimal-fixed" }));
            if let S::Fixed { size, .. } = &**base {
                let wide = sign_extend(n, size + 1);
                out.push(alt(Value::Decimal(apache_avro::Decimal::from(wide)), "decimal-wider-than-fixed", "decimal-fixed"));
            }
        }
        (V::BigDec(..), _) => {
            out.push(alt(Value::Bytes(vec![2, 1, 0]), "bytes-for-big-decimal", kind));
        }
        (V::Uuid(b), S::Logical(_, base)) => {
            let k: &'static str = match &**base {
                S::String => "uuid-string",
                S::Bytes => "uuid-bytes",
                _ => "uuid-fixed",
            };
            out.push(alt(Value::String(uuid_canonical_text(b)), "string-for-uuid", k));
            out.push(alt(Value::String("z".repeat(36)), "non-uuid-string-for-uuid", k));
            out.push(alt(Value::Bytes(b.to_vec()), "bytes-for-uuid", k));
            out.push(alt(Value::Fixed(16, b.to_vec()), "fixed-for-uuid", k));
            out.push(alt(Value::Bytes(vec![1, 2, 3]), "short-bytes-for-uuid", k));
        }
        (V::Duration(m, d, ms), _) => {
            let mut b = vec![];
            b.extend_from_slice(&m.to_le_bytes());
            b.extend_from_slice(&d.to_le_bytes());
            b.extend_from_slice(&ms.to_le_bytes());
            out.push(alt(Value::Fixed(12, b.clone()), "fixed-for-duration", kind));
            out.push(alt(Value::Fixed(11, b[..11].to_vec()), "short-fixed-for-duration", kind));
            out.push(alt(Value::Bytes(b), "bytes-for-duration", kind));
        }
        (V::Array(items), S::Array(it)) => {
            for (k, item) in items.iter().enumerate().take(2) {
                for a in alts(item, it, env).into_iter().skip(1) {
                    let mut vals: Vec<Value> = items.iter().map(|x| to_lib(x, it, env)).collect();
                    vals[k] = a.value;
                    out.push(Alt { value: Value::Array(vals), rw: a.rw });
                }
            }
            out.push(alt(Value::Map(HashMap::new()), "map-for-array", kind));
        }
        (V::Map(entries), S::Map(vt)) => {
            for (k, (_, item)) in entries.iter().enumerate().take(2) {
                for a in alts(item, vt, env).into_iter().skip(1) {
                    let mut m: HashMap<String, Value> = entries.iter().map(|(kk, x)| (kk.clone(), to_lib(x, vt, env))).collect();
                    m.insert(entries[k].0.clone(), a.value);
                    out.push(Alt { value: Value::Map(m), rw: a.rw });
                }
            }
            out.push(alt(Value::Array(vec![]), "array-for-map", kind));
        }
        (V::Record(vals), S::Record { fields, .. }) => {
            let canon_fields: Vec<(String, Value)> = fields.iter().zip(vals).map(|(f, x)| (f.name.clone(), to_lib(x, &f.ty, env))).collect();
            // children
            for (k, (f, x)) in fields.iter().zip(vals).enumerate() {
                for a in alts(x, &f.ty, env).into_iter().skip(1) {
                    let mut fs = canon_fields.clone();
                    fs[k].1 = a.value;
                    out.push(Alt { value: Value::Record(fs), rw: a.rw });
                }
            }
            out.push(alt(Value::Map(canon_fields.iter().cloned().collect()), "map-for-record", kind));
            if canon_fields.len() > 1 {
                let mut rev = canon_fields.clone();
                rev.reverse();
                out.push(alt(Value::Record(rev), "fields-reordered", kind));
            }
            let mut extra = canon_fields.clone();
            extra.push(("zz_extra".into(), Value::Null));
            out.push(alt(Value::Record(extra), "extra-field", kind));
            for (k, f) in fields.iter().enumerate() {
                let nullable = matches!(f.ty.deref(env), S::Union(br) if br.iter().any(|b| matches!(b.deref(env), S::Null)));
                let mut fs = canon_fields.clone();
                fs.remove(k);
                out.push(alt(Value::Record(fs), if nullable { "nullable-field-omitted" } else { "required-field-missing" }, kind));
                let mut renamed = canon_fields.clone();
                renamed[k].0 = format!("{}_x", renamed[k].0);
                out.push(alt(Value::Record(renamed), "field-renamed", kind));
            }
        }
        _ => {}
    }
    out
}

/// Relation "the decoded canonical value `d` is the candidate `c` in canonical representation".
pub fn same(c: &Value, d: &Value) -> bool {
    use Value as X;
    let int_of = |v: &Value| -> Option<i64> {
        Some(match v {
            X::Int(i) | X::Date(i) | X::TimeMillis(i) => *i as i64,
            X::Long(i) | X::TimeMicros(i) | X::TimestampMillis(i) | X::TimestampMicros(i) | X::TimestampNanos(i) | X::LocalTimestampMillis(i) | X::LocalTimestampMicros(i) | X::LocalTimestampNanos(i) => *i,
            _ => return None,
        })
    };
    let bin_of = |v: &Value| -> Option<Vec<u8>> {
        match v {
            X::Bytes(b) | X::Fixed(_, b) => Some(b.clone()),
            _ => None,
        }
    };
    match (c, d) {
        (X::Union(_, a), b) if !matches!(b, X::Union(..)) => same(a, b),
        (a, X::Union(_, b)) => match a {
            X::Union(_, a2) => same(a2, b),
            other => same(other, b),
        },
        (X::Null, X::Null) => true,
        (X::Boolean(a), X::Boolean(b)) => a == b,
        (X::Enum(_, s) | X::String(s), X::Enum(_, t)) => s == t,
        (X::Float(a), X::Float(b)) => a.to_bits() == b.to_bits(),
        (X::Double(a), X::Double(b)) => a.to_bits() == b.to_bits(),
        (X::Float(a), X::Double(b)) => (*a as f64).to_bits() == b.to_bits() || (a.is_nan() && b.is_nan()),
        (X::String(a), X::String(b)) => a == b,
        (X::Decimal(a), X::Decimal(b)) => a == b,
        (a, X::Decimal(b)) if bin_of(a).is_some() => {
            let raw = bin_of(a).unwrap();
            !raw.is_empty() && BigInt::from_signed_bytes_be(&raw) == BigInt::from(b.clone())
        }
        (X::BigDecimal(a), X::BigDecimal(b)) => a == b,
        (X::Duration(a), X::Duration(b)) => a == b,
        (a, X::Duration(b)) if bin_of(a).is_some() => bin_of(a).unwrap() == <[u8; 12]>::from(*b).to_vec(),
        (X::Uuid(a), X::Uuid(b)) => a == b,
        (X::String(a), X::Uuid(b)) => apache_avro::Uuid::parse_str(a).is_ok_and(|u| u == *b),
        (a, X::Uuid(b)) if bin_of(a).is_some() => bin_of(a).unwrap() == b.as_bytes().to_vec(),
        (X::Array(a), X::Array(b)) => a.len() == b.len() && a.iter().zip(b).all(|(x, y)| same(x, y)),
        (X::Map(a), X::Map(b)) => a.len() == b.len() && a.iter().all(|(k, x)| b.get(k).is_some_and(|y| same(x, y))),
        (X::Record(a), X::Record(b)) => record_same(&a.iter().cloned().collect(), b),
        (X::Map(a), X::Record(b)) => record_same(a, b),
        (a, b) => {
            if let (Some(x), Some(y)) = (int_of(a), int_of(b)) {
                return x == y;
            }
            if let (Some(x), Some(y)) = (bin_of(a), bin_of(b)) {
                return x == y;
            }
            false
        }
    }
}

fn record_same(cand: &HashMap<String, Value>, dec: &[(String, Value)]) -> bool {
    // every candidate field appears; fields the candidate omitted must have decoded to null
    let mut used = 0;
    for (name, dv) in dec {
        match cand.get(name) {
            Some(cv) => {
                used += 1;
                if !same(cv, dv) {
                    return false;
                }
            }
            None => {
                let is_null = matches!(dv, Value::Null) || matches!(dv, Value::Union(_, b) if **b == Value::Null);
                if !is_null {
                    return false;
                }
            }
        }
    }
    used == cand.len()
}

#[derive(Debug)]
struct PathOut {
    name: &'static str,
    ok: bool,
    /// bytes that reached the sink beyond what an empty run delivers
    leaked: usize,
    /// datum bytes (for decode) when ok
    datum: Option<Vec<u8>>,
    err: String,
}

const MARKER: [u8; 16] = [9; 16];

fn run_paths(schema: &Schema, cand: &Value) -> Vec<PathOut> {
    let mut out = vec![];
    // 1. datum writer
    {
        let mut sink = vec![];
        let r = guarded(|| GenericDatumWriter::builder(schema).validate(true).build().and_then(|w| w.write_value_ref(&mut sink, cand)));
        let ok = matches!(r, Ok(Ok(_)));
        out.push(PathOut { name: "GenericDatumWriter", ok, leaked: if ok { 0 } else { sink.len() }, datum: if ok { Some(sink.clone()) } else { None }, err: format!("{r:?}") });
    }
    // 2. single-object writer
    {
        let mut sink = vec![];
        let r = guarded(|| GenericSingleObjectWriter::new_with_capacity(schema, 16).and_then(|mut w| w.write_value_ref(cand, &mut sink)));
        let ok = matches!(r, Ok(Ok(_)));
        out.push(PathOut { name: "GenericSingleObjectWriter", ok, leaked: if ok { 0 } else { sink.len() }, datum: if ok && sink.len() >= 10 { Some(sink[10..].to_vec()) } else { None }, err: format!("{r:?}") });
    }
    // 3. container writer (null codec): a rejected append must leave the same file as no append
    {
        let r = guarded(|| {
            let mut w = Writer::builder().schema(schema).writer(Vec::new()).marker(MARKER).build()?;
            let res = w.append_value_ref(cand);
            let bytes = w.into_inner()?;
            Ok::<_, apache_avro::Error>((res.is_ok(), bytes, res.err().map(|e| e.to_string()).unwrap_or_default()))
        });
        match r {
            Ok(Ok((ok, bytes, err))) => {
                let lay = refocf::parse(&bytes);
                match lay {
                    Ok(l) => {
                        if ok {
                            let datum = l.blocks.first().map(|b| bytes[b.payload.0..b.payload.1].to_vec());
                            let good = l.blocks.len() == 1 && l.blocks[0].count == 1;
                            out.push(PathOut { name: "Writer::append_value_ref", ok: good, leaked: 0, datum, err: if good { String::new() } else { "file does not hold exactly one block of one object".into() } });
                        } else {
                            let leaked: usize = l.blocks.iter().map(|b| b.end - b.start).sum();
                            out.push(PathOut { name: "Writer::append_value_ref", ok: false, leaked, datum: None, err });
                        }
                    }
                    Err(e) => out.push(PathOut { name: "Writer::append_value_ref", ok: false, leaked: bytes.len(), datum: None, err: format!("file does not parse: {e}") }),
                }
            }
            other => out.push(PathOut { name: "Writer::append_value_ref", ok: false, leaked: 0, datum: None, err: format!("{other:?}") }),
        }
    }
    out
}

pub fn run(tier: Tier, filter: Filter) -> i32 {
    let start = Instant::now();
    let depth = match tier {
        Tier::Quick => 4,
        Tier::Thorough => 5,
    };
    let corpus = corpus::build(depth, false);
    let st = corpus
        .par_iter()
        .filter(|sc| filter.schema.is_none_or(|i| i == sc.idx))
        .filter(|sc| !sc.label.starts_with("wide"))
        .map(|sc| schema_run(sc, &filter, tier))
        .reduce(Stats::default, Stats::merge);
    let rep = Report {
        id: "C07".into(),
        tier,
        level: "model_checking",
        rule: "candidates = for every (schema, canonical value) of SU: the canonical value and every value obtained by ONE rewrite (bare value in a union, string for enum, numeric kind changes, map for record, bytes<->fixed, bytes/fixed for decimal/uuid/duration, omitted/renamed/extra/reordered fields, wrong sizes/indices/symbols ...) at any one node; each candidate is validated and written through the datum, single-object and container writers; a class is (rewrite, schema kind of the rewritten node, accepted?)".into(),
        bounds: json!({"schema_depth": depth, "schemas": corpus.len(), "rewrites_per_candidate": 1}),
        assumptions: vec!["the oracle only relates validate()'s verdict to the writers' behaviour; equality of candidate and read-back value uses the forgetful relation `same` (union wrappers stripped, enums by symbol, numbers by value, bytes/fixed by content, records by field name)".into()],
        exhaustive: filter.schema.is_none(),
        extra: json!({}),
    };
    ev::finish(rep, st, start)
}

/// Root-cause patterns of the recorded deviations, detected on the *input* (candidate value
/// against the reference schema), in the order the encoder would meet them.
pub fn patterns(v: &Value, s: &S, env: &Env, out: &mut Vec<&'static str>) {
    let s = s.deref(env);
    match (v, s) {
        (Value::Union(i, inner), S::Union(br)) => {
            if let Some(b) = br.get(*i as usize) {
                patterns(inner, b, env, out);
            }
        }
        (Value::Record(_) | Value::Null, S::Union(_)) => {
            // the encoder handles bare null and bare records in a union
            if let (Value::Record(fields), S::Union(br)) = (v, s) {
                // The value belongs to the first record branch it conforms to (else the first that has all
                // its field names). The encoder instead tries the branches in order and keeps the first
                // that encodes without error - and scalars encode whatever the schema says - so an EARLIER
                // record branch all of whose fields the value can supply shadows the right one.
                let recs: Vec<&S> = br.iter().filter(|b| matches!(b.deref(env), S::Record { .. })).collect();
                let names_in = |b: &S| matches!(b.deref(env), S::Record { fields: sf, .. } if fields.iter().all(|(n, _)| sf.iter().any(|f| &f.name == n)));
                let target = recs.iter().position(|b| fits(v, b, env)).or_else(|| recs.iter().position(|b| names_in(b)));
                for (i, b) in recs.iter().enumerate() {
                    if Some(i) == target {
                        patterns(v, b, env, out);
                        break;
                    }
                    if let S::Record { fields: sf, .. } = b.deref(env) {
                        if !sf.is_empty() && sf.iter().all(|f| fields.iter().any(|(n, _)| n == &f.name)) {
                            out.push("bare-record-shadowed");
                        }
                    }
                }
            }
        }
        (_, S::Union(_)) => out.push("bare"),
        (Value::Float(_), S::Double) => out.push("float-for-double"),
        (Value::Enum(i, _), S::Enum { symbols, default, .. }) => {
            if *i as usize >= symbols.len() && default.is_some() {
                out.push("enum-out-of-range-default");
            }
        }
        (Value::Fixed(..), S::Logical(Lt::Decimal { .. }, base)) if matches!(**base, S::Bytes) => out.push("fixed-for-decimal-bytes"),
        (Value::Bytes(_), S::Logical(Lt::Decimal { .. }, _)) => out.push("bytes-for-decimal"),
        // decimal on fixed(size): validation looks at neither the width of a Fixed nor of a Decimal value
        (Value::Fixed(n, _), S::Logical(Lt::Decimal { .. }, base)) if matches!(&**base, S::Fixed { size, .. } if size != n) => out.push("fixed-of-another-size-for-decimal-fixed"),
        (Value::Decimal(d), S::Logical(Lt::Decimal { .. }, base)) if matches!(&**base, S::Fixed { size, .. } if <Vec<u8>>::try_from(d).is_ok_and(|b| minimal_len(&b) > *size)) => out.push("decimal-wider-than-its-fixed"),
        (Value::String(t), S::Logical(Lt::Uuid, base)) if matches!(**base, S::String) => {
            if apache_avro::Uuid::parse_str(t).is_err() {
                out.push("non-uuid-string");
            }
        }
        (Value::Map(_), S::Record { .. }) => out.push("map-for-record"),
        (Value::Record(fields), S::Record { fields: sf, .. }) => {
            for f in sf {
                match fields.iter().find(|(n, _)| *n == f.name) {
                    Some((_, x)) => patterns(x, &f.ty, env, out),
                    None => {
                        let nullable = matches!(f.ty.deref(env), S::Union(br) if br.iter().any(|b| matches!(b.deref(env), S::Null)));
                        out.push(if nullable { "nullable-omitted" } else { "required-missing" });
                    }
                }
            }
        }
        (Value::Array(items), S::Array(it)) => items.iter().for_each(|x| patterns(x, it, env, out)),
        (Value::Map(m), S::Map(vt)) => m.values().for_each(|x| patterns(x, vt, env, out)),
        _ => {}
    }
}

/// Bytes the two's-complement number in `b` needs at least.
fn minimal_len(b: &[u8]) -> usize {
    let mut i = 0;
    while i + 1 < b.len() && ((b[i] == 0 && b[i + 1] & 0x80 == 0) || (b[i] == 0xff && b[i + 1] & 0x80 != 0)) {
        i += 1;
    }
    b.len() - i
}

/// Structural conformance of a candidate to a schema, exact kinds only (no widening, no bare values);
/// used only to decide which record branch of a union a bare record belongs to.
fn fits(v: &Value, s: &S, env: &Env) -> bool {
    match (v, s.deref(env)) {
        (Value::Null, S::Null) | (Value::Boolean(_), S::Boolean) | (Value::Int(_), S::Int) | (Value::Long(_), S::Long) | (Value::Float(_), S::Float) | (Value::Double(_), S::Double) | (Value::Bytes(_), S::Bytes) | (Value::String(_), S::String) => true,
        (Value::Fixed(n, _), S::Fixed { size, .. }) => n == size,
        (Value::Enum(i, _), S::Enum { symbols, .. }) => (*i as usize) < symbols.len(),
        (Value::Array(items), S::Array(it)) => items.iter().all(|x| fits(x, it, env)),
        (Value::Map(m), S::Map(vt)) => m.values().all(|x| fits(x, vt, env)),
        (Value::Union(i, inner), S::Union(br)) => br.get(*i as usize).is_some_and(|b| fits(inner, b, env)),
        (Value::Record(fields), S::Record { fields: sf, .. }) => fields.len() == sf.len() && fields.iter().zip(sf).all(|((n, x), f)| n == &f.name && fits(x, &f.ty, env)),
        (x, S::Logical(..)) => !matches!(x, Value::Null | Value::Boolean(_) | Value::Array(_) | Value::Map(_) | Value::Record(_) | Value::Union(..) | Value::Enum(..)),
        _ => false,
    }
}

/// Recorded deviations: (root-cause pattern present in the input, outcome class) -> finding id.
fn deviation_id(pats: &[&'static str], class: &str) -> Option<&'static str> {
    let bad_write = matches!(class, "accepted-unreadable" | "accepted-different-value");
    let first = *pats.first()?;
    match (first, class) {
        ("float-for-double", _) if bad_write => Some("D-C07-float-for-double-written-as-4-bytes"),
        ("bare", _) if bad_write => Some("D-C07-bare-value-in-union-written-without-index"),
        ("bare", "accepted-write-error") => Some("D-C07-bare-value-in-union-encoder-error"),
        ("bare-record-shadowed", _) if bad_write => Some("D-C07-bare-record-in-union-written-as-earlier-branch"),
        ("enum-out-of-range-default", _) if bad_write => Some("D-C07-enum-index-out-of-range-accepted-with-default"),
        ("fixed-for-decimal-bytes", _) if bad_write => Some("D-C07-fixed-for-decimal-bytes-written-without-length"),
        ("bytes-for-decimal", "accepted-write-error") => Some("D-C07-bytes-for-decimal-encoder-error"),
        ("fixed-of-another-size-for-decimal-fixed", _) if bad_write => Some("D-C07-fixed-of-another-size-accepted-for-decimal-on-fixed"),
        ("decimal-wider-than-its-fixed", "accepted-write-error") => Some("D-C07-decimal-wider-than-its-fixed-accepted-then-encoder-error"),
        ("map-for-record", "accepted-write-error") => Some("D-C07-map-for-record-encoder-error"),
        ("nullable-omitted", "accepted-write-error") => Some("D-C07-omitted-nullable-field-encoder-error"),
        ("required-missing", "accepted-write-error") => Some("D-C07-required-field-missing-accepted-when-a-nullable-field-is-present"),
        ("non-uuid-string", "accepted-unreadable") => Some("D-C07-non-uuid-string-accepted-for-uuid"),
        _ => None,
    }
}

fn schema_run(sc: &Sc, filter: &Filter, tier: Tier) -> Stats {
    let mut st = Stats::default();
    let schema = match corpus::parse_lib(&sc.text) {
        Ok(s) => s,
        Err(_) => {
            st.outcome("schema-not-accepted");
            return st;
        }
    };
    let level = if tier == Tier::Quick { 1 } else { 0 };
    let vals = val::values(&sc.s, &sc.env, level, 0);
    let mut ci = 0usize;
    for v in vals.iter() {
        if v.has_multi_map() {
            continue;
        }
        for a in alts(v, &sc.s, &sc.env) {
            let my = ci;
            ci += 1;
            if filter.value.is_some_and(|x| x != my) {
                continue;
            }
            let order = (sc.idx as u64) << 28 | my as u64;
            st.states += 1;
            st.evaluations += 1;
            let accepted = match guarded(|| a.value.validate(&schema)) {
                Ok(b) => b,
                Err(_) => {
                    st.outcome("validate-panicked(C11)");
                    continue;
                }
            };
            let paths = run_paths(&schema, &a.value);
            st.transitions += 1 + paths.len() as u64;
            let rw = a.rw.unwrap_or(("canonical", sc.s.kind()));
            let replay = json!({"schema_idx": sc.idx, "value_idx": my, "schema": sc.json});
            let case = |what: &str, detail: J| json!({"schema": sc.json, "canonical_value": v.short(), "rewrite": rw.0, "rewritten_node_kind": rw.1, "candidate": ev::trunc(&format!("{:?}", a.value), 300), "validate": accepted, "observed": what, "detail": detail});
            let mut problem: Option<(String, &'static str, J)> = None; // (message, outcome class, detail)
            if a.rw.is_none() && !accepted {
                problem = Some(("validation rejects a canonical conforming value".into(), "canonical-rejected", json!({})));
            } else if accepted {
                for p in &paths {
                    if !p.ok {
                        problem = Some((format!("{} fails on a value that validation accepts", p.name), "accepted-write-error", json!({"error": ev::trunc(&p.err, 300), "bytes_leaked": p.leaked})));
                        break;
                    }
                    let datum = p.datum.clone().unwrap_or_default();
                    match lib_decode(&schema, &datum) {
                        Ok((d, n)) if n == datum.len() => {
                            let revalidates = guarded(|| d.validate(&schema)).unwrap_or(false);
                            if !revalidates || !same(&a.value, &d) {
                                problem = Some((format!("{}: bytes decode to a different value", p.name), "accepted-different-value", json!({"bytes": hex(&datum), "decoded": ev::trunc(&format!("{d:?}"), 300), "decoded_validates": revalidates})));
                                break;
                            }
                        }
                        other => {
                            problem = Some((format!("{}: bytes written for an accepted value are not readable as one datum", p.name), "accepted-unreadable", json!({"bytes": hex(&datum), "decode": ev::trunc(&format!("{other:?}"), 300)})));
                            break;
                        }
                    }
                }
            } else {
                for p in &paths {
                    if p.ok {
                        problem = Some((format!("{} writes a value that validation rejects", p.name), "rejected-written", json!({})));
                        break;
                    }
                    if p.leaked != 0 {
                        problem = Some((format!("{}: a rejected value left {} bytes in the output", p.name, p.leaked), "rejected-leaked", json!({})));
                        break;
                    }
                }
            }
            match problem {
                None => {
                    st.outcome(if accepted { "accepted-readable" } else { "rejected-clean" });
                    st.class(format!("{}|{}|{}", rw.0, rw.1, accepted));
                    if a.rw.is_some() && accepted {
                        st.sample(|| case("accepted and read back in canonical form", json!({})));
                    }
                }
                Some((msg, class, detail)) => match {
                    let mut pats = vec![];
                    patterns(&a.value, &sc.s, &sc.env, &mut pats);
                    deviation_id(&pats, class)
                } {
                    Some(dev) => {
                        st.outcome("known-deviation");
                        st.deviation(dev, || case(&msg, detail));
                    }
                    None => {
                        st.outcome(&format!("violation:{class}:{}:{}", rw.0, rw.1));
                        st.violate(order, &format!("{class}: {}", rw.0), case(&msg, detail), replay);
                    }
                },
            }
        }
    }
    st
}
